#!/usr/bin/env python3
"""Shape catalogue: bounded-exhaustive product of operation form x operand shape x statement context
(DESIGN.md 3.2).  Complements the random grammar programs: every combination is small, valid and
aimed at one transformation, so a defect that needs a particular shape in a particular place is hit
deterministically.  `catalogue(seed, n)` returns n programs (a seeded sample; all of them if n is None)."""
import itertools, random

OPERANDS = ["a", "'lit'", "42", "f()", "o.p", "o[k]", "(a)", "('x' + 'y')", "'x' + 'y'", "[a, b]", "[[x, y], z]",
            "undefined", "null", "a + b", "`t${a}`", "a?.b", "this", "(a, b)", "o.m(a)", "a.trim()", "i++",
            "`plain`", "/re/", "x = y", "(() => a)", "!a", "a ? b : 'c'", "new F(a)", "o?.[k]", "f?.()",
            # one of every remaining expression kind
            "++x", "x--", "a && b", "a || b", "a ?? b", "x &&= y", "x ??= y", "x -= 1", "a * b", "a ** b", "k in o", "a instanceof F", "-a", "~a", "void 0",
            "delete o.p", "delete o?.concat(a).p", "delete o?.p.trim().q", "delete o?.[k.trim()]", "typeof a", "function () { return a; }", "class {}", "({ ...o })", "({ k: a })", "({ [k]: a, m() { return b; } })", "[...r]", "[, a]",
            "new F", "o.p.q", "o?.p.q", "o?.[k]?.(a)", "tag`t${a}`", "import('m')", "new.target", "0x10", ".5", "true", "`a${b}c`", "/re/g", "a, b".replace(", ", " , ") and "(a , b)",
            "a < b", "a == b", "a === 'x'", "a - b", "a % b", "a | b", "a >>> 1", "!(a + b)", "(a + b) * 2", "a + b - c", "x = a + b", "[a + b]", "({ k: a + b }).k",
            # identifiers and literals that end in a multi-byte character (the last byte of the operation is not a character boundary)
            "\u00e9", "x\u4727", "o.\u00e9", "'\u00e9'", "f\u00e9()", "`t${\u00e9}`", "1n", "/re/\u0075"]
ARG_LISTS = ["", "a", "'lit'", "a, b", "f(), b", "...r", "a, ...r", "...r, ...q", "[a, b]", "[[x, y], z]", "a, , b".replace(", ,", ", undefined,"),
             "'l1', 'l2'", "a + b, `t${x}`", "o.p, o[k]", "...'lit'", "(a, b)", "x = y", "a?.b", "() => a + b",
             # what is spread: a call, an array literal, a member, a conditional, a new expression, a template, an await-free sequence
             "...f()", "...[a, b]", "a, ...o.list()", "...(c ? r : q)", "...new F(a)", "...o.p, b", "...`t${a}`", "...[...r, a]", "...(a, r)", "...r.slice(1)"]
ARRAYS = ["[a, b]", "[]", "[a]", "['l1', 'l2']", "[a, , b]", "[...r]", "[a, ...r]", "[[x, y], z]", "[f(), g()]", "[, a]", "arr", "f()", "...r", "[a + b]", "['x' + 'y', a]"]
RECEIVERS = ["a", "'lit'", "f()", "o.p", "o.prototype", "o[k]", "(a)", "[a, b]", "this", "`t${a}`", "a.trim()", "o.p.q", "new F()", "42", "a?.b", "super.x",
             # member paths that merely pass through (or start at) something called prototype
             "Foo.prototype.label", "this.prototype.x.y", "o.constructor.prototype.id", "prototype.name", "o.prototype.prototype", "o.p.prototype",
             "o[k].prototype.v", "f().prototype.w", "o.call", "o.apply.p", "o.p.call", "a.b.c.d.e", "this.a", "o['prototype'].z", "(o.prototype).y",
             # templates without substitution (never a literal receiver), with escapes and line breaks
             "`plain`", "`a\\tb`", "`l1\\nl2\\u00e9`", "`two\nlines`", "`cr\r\nlf`",
             # optional calls whose callee is a member access: the receiver is the call's this
             "o?.m?.(a)", "o.p?.m?.(a, b)", "(o.m)?.(a)", "o?.[k]?.(a)", "o?.p.m?.(a)", "o.m?.(a)", "f?.(a)"]
METHODS = ["trim", "substring", "concat", "replace", "slice", "trimStart", "toUpperCase", "padStart", "call", "apply"]
THIS_ARGS = ["a", "'lit'", "f()", "o.p", "...r", "undefined", "[a]", "this", "a + b"]

SPECIAL_LITS = [r"'\\'", r"'\\users\\'", "'`'", "'${x}'", r"'\n'", r"'\u0041'", r"'\x41'", r"'it\'s'", r'"q\"q"', r"'\\1'", r"'\\u'", r"'a\\'",
                r"'\0'", "'\u2028'", "'</script>'", r"'\r\n'", "'\t'", "''", "'\U0001F600'", r"'\ud83d'", "'/*'", "'//'", "'é'"]

CONTEXTS = [
    "function f(a,b,o,k,r,q,x,y,z,i,arr){ return %s; }",
    "function f(a,b,o,k,r,q,x,y,z,i,arr){ const v = %s; return v; }",
    "function f(a,b,o,k,r,q,x,y,z,i,arr){ if (%s) { x = 1; } }",
    "function f(a,b,o,k,r,q,x,y,z,i,arr){ if (c) x = %s; else y = %s; }",
    "function f(a,b,o,k,r,q,x,y,z,i,arr){ if (c) {} else if (%s) {} }",
    "function f(a,b,o,k,r,q,x,y,z,i,arr){ for (let j = %s; j < 1; j++) { y = %s; } }",
    "function f(a,b,o,k,r,q,x,y,z,i,arr){ for (const e of %s) x = e; }",
    "function f(a,b,o,k,r,q,x,y,z,i,arr){ while (%s) break; do y = %s; while (c); }",
    "function f(a,b,o,k,r,q,x,y,z,i,arr){ switch (%s) { case %s: x = %s; break; default: y = 1; } }",
    "function f(a,b,o,k,r,q,x,y,z,i,arr){ try { x = %s; } catch (e) { y = %s; } finally { z = %s; } }",
    "function f(a,b,o,k,r,q,x,y,z,i,arr){ lbl: { x = %s; } }",
    "function f(a,b,o,k,r,q,x,y,z,i,arr){ throw %s; }",
    "class A extends B { m(p = %s) { return %s; } }",
    "class A { static s = %s; f = %s; #p = %s; static { x = %s; } }",
    "class A extends B { constructor(a,b,o,k,r) { super(%s); this.v = %s; } }",
    "const g = (a,b,o,k,r,q,x,y,z,i,arr) => %s;",
    "const g = (a, p = %s) => { return %s; };",
    "function outer(a,b,o,k,r,q,x,y,z,i,arr){ const h = async () => { await %s; }; return h; }",
    "function* gen(a,b,o,k,r,q,x,y,z,i,arr){ yield %s; const v = yield; return %s; }",
    "function f(a,b,o,k,r,q,x,y,z,i,arr){ o = { k: %s, [%s]: 1, m() { return %s; }, get g() { return %s; } }; }",
    "function f(a,b,o,k,r,q,x,y,z,i,arr){ return [%s, ...%s]; }",
    "function f(a,b,o,k,r,q,x,y,z,i,arr){ return g(%s, ...[%s]); }",
    "function f(a,b,o,k,r,q,x,y,z,i,arr){ return new F(%s); }",
    "function f(a,b,o,k,r,q,x,y,z,i,arr){ return tag`p${%s}q`; }",
    "function f(a,b,o,k,r,q,x,y,z,i,arr){ return `p${%s}q${'lit'}`; }",
    "function f(a,b,o,k,r,q,x,y,z,i,arr){ return %s ? %s : %s; }",
    "function f(a,b,o,k,r,q,x,y,z,i,arr){ return (%s) && (%s) || (%s ?? 1); }",
    "function f(a,b,o,k,r,q,x,y,z,i,arr){ delete o[%s]; return typeof (%s); }",
    "function f(a,b,o,k,r,q,x,y,z,i,arr){ 'use strict'; return %s; }",
    "function f(a,b,o,k,r,q,x,y,z,i,arr){ 'other'; 'use strict'; return %s; }",
    "'use strict'; function f(a,b,o,k,r,q,x,y,z,i,arr){ return %s; }",
    "'use client'; \"use strict\"; function f(a,b,o,k,r,q,x,y,z,i,arr){ return %s; }",
    "\"use strict\"; 'use client'; { x = %s; }",
    "{ x = %s; }",
    "x = %s;",
    "export function f(a,b,o,k,r,q,x,y,z,i,arr){ return %s; }",
    "import d from 'm'; export default function (a,b,o,k,r,q,x,y,z,i,arr){ 'use strict'; return %s; }",
    "function f(a,b,o,k,r,q,x,y,z,i,arr){ { { x = %s; } } return function inner(){ return %s; }; }",
    "function f(a, b = %s, {o = %s} = {}, [k = %s] = []) { return a; }",
    "{ function g(n, p = %s) { return p; } }",
    "function f(a,b,o,k,r,q,x,y,z,i,arr){ x = (y = %s, %s); }",
    "function f(a,b,o,k,r,q,x,y,z,i,arr){ return (%s).length + 1; }",
    "function f(a,b,o,k,r,q,x,y,z,i,arr){ o[%s] += %s; }",
    "function f(a,b,o,k,r,q,x,y,z,i,arr){ for (x in %s) {} for (;;) { if (%s) break; } }",
    # less common constructs
    "class A { [%s]() { return %s; } static [%s] = %s; get [%s]() { return %s; } }",
    "function f(a,b,o,k,r,q,x,y,z,i,arr){ o = { get g() { return %s; }, set s(v) { x = %s; } }; }",
    "class A { get g() { return %s; } set s(v) { this.v = %s; } #m() { return %s; } static async *gen() { yield %s; } }",
    "function f(a,b,o,k,r,q,x,y,z,i,arr){ outer: for (const e of arr) { if (%s) continue outer; y = %s; } }",
    "function f(a,b,o,k,r,q,x,y,z,i,arr){ for (let j = 0; j < %s; j += %s) { x = j; } for (x = %s, y = %s; ; ) break; }",
    "const h = async (a,b,o,k,r,q,x,y,z,i,arr) => %s;",
    "const h = async (a,b,o,k,r,q,x,y,z,i,arr) => { return await %s; };",
    "function* g(a,b,o,k,r,q,x,y,z,i,arr){ yield* %s; const w = yield %s; }",
    "function f(a,b,o,k,r,q,x,y,z,i,arr){ const { p = %s, ...rest } = o; [x = %s] = arr; }",
    "function f(a,b,o,k,r,q,x,y,z,i,arr){ try { x = %s; } catch { y = %s; } }",
    "function f(a,b,o,k,r,q,x,y,z,i,arr){ return `n${`i${%s}`}o${%s}`; }",
    "export default class { m(a,b,o,k,r,q,x,y,z,i,arr) { return %s; } }",
    "function f(a,b,o,k,r,q,x,y,z,i,arr){ return q?.(%s) ?? new.target; }",
    "function f(a,b,o,k,r,q,x,y,z,i,arr){ do { x = %s; } while (%s); }",
    "function f(a,b,o,k,r,q,x,y,z,i,arr){ if (a) return %s; else if (b) return %s; else return %s; }",
    "function f(a,b,o,k,r,q,x,y,z,i,arr){ switch (k) { case 1: { x = %s; break; } case %s: y = %s; default: return %s; } }",
    "function f(a,b,o,k,r,q,x,y,z,i,arr){ return (x = %s, y = %s, %s); }",
    "var v = function named(a,b,o,k,r,q,x,y,z,i,arr) { 'use strict'; return %s; }, w = (function () { return %s; })();",
    "function f(a,b,o,k,r,q,x,y,z,i,arr){ return { [%s]: %s, ...%s }; }",
    # expression-bodied arrow functions whose body is not itself the operation
    "const pick = (k) => table[%s];",
    "const pick = (k) => this.a.b[%s];",
    "function f(a,b,o,k,r,q,x,y,z,i,arr){ return arr.map((e) => o[%s].value); }",
    "class A { h = (k) => (o[%s]); static g = (k) => q(%s); }",
    "const pick = (a,b,o,k) => ({ v: %s });",
    "const pick = (a,b,o,k) => [%s, %s];",
    "const pick = (a,b,o,k) => k ? %s : o;",
    "const pick = (a,b,o,k) => (b) => q(%s);",
    "function f(a,b,o,k,r,q,x,y,z,i,arr){ return f2(%s) + ((%s).length > 1 ? 'L' : 'S'); }",
    "function f(a,b,o,k,r,q,x,y,z,i,arr){ return `${f2()}${(%s) ? %s : y}`; }",
]

# an operation is not always a whole statement / operand: it also sits inside other expressions
WRAPPERS = ["o[%s]", "o.p[%s].value", "(%s).length", "q(%s)", "q(1, %s)", "[%s]", "({ k: %s }).k", "c ? %s : z", "%s ? 'L' : 'S'", "!(%s)",
            "typeof (%s)", "(x, %s)", "(o[%s])", "new F(%s)", "-(%s)", "(%s) === x", "(%s) in o", "[...%s]", "o?.[%s]", "void (%s)",
            "f2() + ((%s).length > 1 ? 'L' : 'S')", "((%s).length > 1 ? a : b) + f2()", "y = %s", "(%s) || z", "z ?? (%s)"]


LOW_PRECEDENCE = ["() => 1", "async () => y", "(p) => p + a", "p => { return p }", "a ? b : y", "y = z", "y += z", "a ?? b", "a || b && y", "function () { return a }",
                  "class { m() { return a + b } }", "async function* () {}", "new K", "a, b" if False else "(a, b)", "!a", "-a", "typeof a", "void 0", "a ** b", "a instanceof K", "k in o", "a?.b ?? y", "x++", "--x"]


def operations(rng, reserved=None):
    """One expression per (form x shapes) drawn with rng."""
    ops = OPERANDS + ([reserved] if reserved else [])
    def o(): return rng.choice(ops)
    def par(e): return e if (e.replace("_", "a").isalnum() and not e[0].isdigit()) else "(" + e + ")"
    def rpar(e): return "(" + e + ")" if e[0].isdigit() else e
    forms = [
        lambda: "%s + %s" % (par(o()), par(o())),
        lambda: "%s + %s + %s" % (par(o()), par(o()), par(o())),
        lambda: "%s + (%s + %s)" % (par(o()), par(o()), par(o())),
        # the same variable on both sides of an operation whose other operand changes it (update, unary over an assignment)
        lambda: rng.choice(["i + i++", "i + ++i", "i++ + i", "x + -(x = y)", "x + typeof (x = y)", "i + -i--", "x + !(x = y)", "i + (i += 1)", "`${i}${i++}`", "x.concat(x = y)", "i + i++ + i", "x + void (x = y)"]),
        lambda: "%s += %s" % (rng.choice(["x", "o.p", "o[k]", "o[i++]", "f().p", "o.p.q", "this.v", "o[a + b]", "o[-k]", "o[+k]", "(o[-k])", "o[`${k}`]", "o[k ? 'a' : 'b']",
                                           "o[k.p]", "o[typeof k]", "o[!k]", "o[~k]", "o[k - 1]", "o[(k, 1)]", "o[k?.p]", "o.p[-k].q", "o[k][-i]", "o[-1]", "o['lit']", "o[f()].p[g()]",
                                           "f()[g(a)]", "o.p[f()]", "g(a)[k + 1]", "f()[o.p]", "o.q.r[g(b)]", "f().p[g(a)]", "(a, o)[f()]", "o[f()][g(a)]",
                                           "((o.p))", "(((x)))", "((o[k]))", "((o).p)", "((f().p))",
                                           "x[(x = y, 'p')]", "o[f(o = a)]", "this[(f(), 'v')]", "x[`${(x = y, k)}`]",
                                           # words that start a declaration or a labelled statement when they come first
                                           "(let)[0]", "(let).p", "(let[k])", "(async).p", "(yield_)[k]", "(function () {}).p", "(class {}).q", "({}).p", "({ p: 1 })[k]",
                                           # an instrumented operation in the key of a link that is not the last one
                                           "o[a + b].p", "this.cache[k.trim()].buf", "o[`${k}`].p.q", "o[a + b][k + 1]", "o.p[x.concat(y)].q", "this[a + b].v", "o[k.trim()][i]"]), o()),
        lambda: "`%s${%s}%s`" % (rng.choice(["", "p"]), o(), rng.choice(["", "q"])),
        lambda: "`${%s}-${%s}`" % (o(), o()),
        lambda: "%s.%s(%s)" % (rpar(rng.choice(RECEIVERS)), rng.choice(METHODS), rng.choice(ARG_LISTS)),
        lambda: "%s?.%s(%s)" % (par(rng.choice(RECEIVERS)), rng.choice(METHODS), rng.choice(ARG_LISTS)),
        lambda: "%s?.p.%s(%s)" % (par(rng.choice(RECEIVERS)), rng.choice(METHODS), rng.choice(ARG_LISTS)),
        lambda: "%s.%s?.(%s)" % (par(rng.choice(RECEIVERS)), rng.choice(METHODS), rng.choice(ARG_LISTS)),
        lambda: "%s?.(%s).%s(%s)" % (rng.choice(["super.m", "(super.m)", "super[k]", "super.m.n", "o.m", "(o.m)", "o?.m", "f", "o[k]", "new.target"]), rng.choice(ARG_LISTS), rng.choice(METHODS), rng.choice(ARG_LISTS)),
        lambda: "%s?.%s(%s)?.%s(%s)" % (par(rng.choice(RECEIVERS)), rng.choice(METHODS), rng.choice(ARG_LISTS), rng.choice(METHODS), rng.choice(ARG_LISTS)),
        lambda: "%s.prototype.%s.call(%s%s)" % (rng.choice(["String", "o", "f()"]), rng.choice(METHODS[:7]), rng.choice(THIS_ARGS),
                                                  rng.choice(["", ", " + rng.choice(ARG_LISTS[1:])])),
        lambda: "%s.prototype.%s.apply(%s, %s)" % (rng.choice(["String", "o"]), rng.choice(METHODS[:7]), rng.choice(THIS_ARGS), rng.choice(ARRAYS)),
        # more arguments than apply uses (they are still evaluated), fewer than it needs
        lambda: "%s.prototype.%s.apply(%s, %s, %s)" % (rng.choice(["String", "o"]), rng.choice(METHODS[:7]), rng.choice(THIS_ARGS), rng.choice(ARRAYS), par(o())),
        lambda: "%s.prototype.%s.apply(%s, %s, %s, %s)" % (rng.choice(["String", "o"]), rng.choice(METHODS[:7]), rng.choice(THIS_ARGS), rng.choice(ARRAYS), par(o()), par(o())),
        lambda: "%s.prototype.%s.call(%s, %s, %s, %s)" % (rng.choice(["String", "o"]), rng.choice(METHODS[:7]), rng.choice(THIS_ARGS), par(o()), par(o()), par(o())),
        lambda: "%s.%s.%s(%s, %s)" % (rng.choice(["''", "o", "f()", "a"]), rng.choice(METHODS[:7]), rng.choice(["call", "apply"]), rng.choice(THIS_ARGS), rng.choice(ARRAYS)),
        lambda: "aloneMethod(%s)" % rng.choice(ARG_LISTS),
        lambda: "%s[%s](%s)" % (par(rng.choice(RECEIVERS[:6])), rng.choice(["'trim'", "k", "`trim`"]), rng.choice(ARG_LISTS)),
        lambda: "%s.trim(%s).concat(%s).%s()" % (par(rng.choice(RECEIVERS)), rng.choice(ARG_LISTS[:3]), rng.choice(ARG_LISTS), rng.choice(METHODS[:7])),
        lambda: "%s" % o(),
        # the same identifier read more than once around an operand that may change it
        lambda: "`${a}-${%s}-${a}`" % o(),
        lambda: "`${x}:${x = y}:${x}${i}${i++}${i}`",
        lambda: "a.concat(b, %s, b)" % o(),
        lambda: "a.concat(a, %s, a)" % o(),
        lambda: "x + %s + x" % par(o()),
        lambda: "a.replace(a, a)",
        # string literals with characters that need care when they are printed or folded into other text
        lambda: "`${a}${%s}`" % rng.choice(SPECIAL_LITS),
        lambda: "`p${%s}q${b}${%s}`" % (rng.choice(SPECIAL_LITS), rng.choice(SPECIAL_LITS)),
        lambda: "a + %s + b" % rng.choice(SPECIAL_LITS),
        lambda: "a.concat(%s, b)" % rng.choice(SPECIAL_LITS),
        lambda: "%s.concat(a)" % rng.choice(SPECIAL_LITS),
        lambda: "x += %s" % rng.choice(SPECIAL_LITS),
        # a bare comma expression where the grammar allows a full Expression
        lambda: "`x${a, %s}y`" % o(),
        lambda: "`${f(), a}${b}`",
        lambda: "o[a, %s] += x" % par(o()),
        lambda: "o[f(), k] += 'v'",
        lambda: "o[a, b].trim()",
        lambda: "`${x = y, x}`.concat(a)",
        # operands of AssignmentExpression level where the grammar allows them unparenthesised (right of +=, substitution, argument):
        # what is legal there is not legal as an operand of the rebuilt `t + rhs`
        lambda: "%s += %s" % (rng.choice(["x", "o.p", "o[k]", "f().p", "(o.p)"]), rng.choice(LOW_PRECEDENCE)),
        lambda: "`a${%s}b${%s}`" % (rng.choice(LOW_PRECEDENCE), o()),
        lambda: "a.concat(%s, %s)" % (rng.choice(LOW_PRECEDENCE), o()),
        lambda: "%s + (%s)" % (par(o()), rng.choice(LOW_PRECEDENCE)),
    ]
    return forms


def program(seed, i, reserved=None):
    rng = random.Random("%s/cat/%d" % (seed, i))
    forms = operations(rng, reserved)
    ctx = CONTEXTS[i % len(CONTEXTS)] if rng.random() < 0.7 else rng.choice(CONTEXTS)
    n = ctx.count("%s")
    exprs = []
    for _ in range(n):
        e = rng.choice(forms)()
        if rng.random() < 0.3:
            e = rng.choice(WRAPPERS) % e
        exprs.append(e)
    code = ctx % tuple(exprs)
    # constructs that are only valid in some contexts
    if "super.x" in code and "class A extends B" not in code:
        code = code.replace("super.x", "o.x")
    return code


def catalogue(seed, n, reserved=None):
    return [program(seed, i, reserved) for i in range(n)]


if __name__ == "__main__":
    import sys
    for c in catalogue(sys.argv[1] if len(sys.argv) > 1 else "1", int(sys.argv[2]) if len(sys.argv) > 2 else 20):
        print(c)
