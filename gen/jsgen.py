#!/usr/bin/env python3
"""Structured random JavaScript generator (mostly valid programs) used by the correspondence
check and as search input.  Every choice derives from the one random.Random passed in, so a
(seed, index) pair replays exactly.  The generator is biased towards the operations the
rewriter instruments (+, +=, templates, configured method calls, .call/.apply, optional
chains) placed in every statement/expression context, with operands of every shape."""
import random

IDENTS = ["a", "b", "c", "s", "o", "arr", "x", "y", "fn", "obj"]
METHODS_CFG = ["substring", "trim", "trimStart", "trimEnd", "concat", "slice", "replace"]
METHODS_OTHER = ["toUpperCase", "split", "padStart", "repeat", "foo", "call", "apply", "prototype", "at"]
LITERAL_STRINGS = ["", "a", "hello", "0123456789", "01234567890", "abcdefghijkl", "x" * 40,
                   "it's", 'say "hi"', "line\\nbreak", "\\u00e9t\\u00e9 caf\\u00e9 !!", "use strict",
                   "tpl ${x}", "# sourceMappingURL=x.map", "y" * 256, "z" * 257, "path/to/module"]


class Ctx:
    def __init__(self, fn=False, gen=False, asy=False, loop=False, switch=False, method=False,
                 derived=False, strict=False, labels=(), module=False):
        self.fn, self.gen, self.asy, self.loop, self.switch = fn, gen, asy, loop, switch
        self.method, self.derived, self.strict, self.labels, self.module = method, derived, strict, labels, module

    def sub(self, **kw):
        d = dict(fn=self.fn, gen=self.gen, asy=self.asy, loop=self.loop, switch=self.switch,
                 method=self.method, derived=self.derived, strict=self.strict, labels=self.labels,
                 module=self.module)
        d.update(kw)
        return Ctx(**d)

    def fresh_fn(self, gen=False, asy=False, method=False, arrow=False):
        if arrow:
            return self.sub(fn=True, gen=False, asy=asy, loop=False, switch=False, labels=())
        return self.sub(fn=True, gen=gen, asy=asy, loop=False, switch=False, method=method, labels=())


class Gen:
    def __init__(self, rng, methods_cfg=None, max_depth=4, reserved_prefix=None, p_reserved=0.0):
        self.r = rng
        self.methods_cfg = methods_cfg or METHODS_CFG
        self.max_depth = max_depth
        self.reserved_prefix = reserved_prefix
        self.p_reserved = p_reserved
        self.label_n = 0

    # ---- helpers -------------------------------------------------------------------------
    def pick(self, xs):
        return xs[self.r.randrange(len(xs))]

    def weighted(self, table):
        tot = sum(w for w, _ in table)
        x = self.r.random() * tot
        for w, f in table:
            x -= w
            if x <= 0:
                return f
        return table[-1][1]

    def ident(self):
        if self.reserved_prefix and self.r.random() < self.p_reserved:
            return "%s%d" % (self.reserved_prefix, self.r.randrange(3))
        return self.pick(IDENTS)

    def str_lit(self):
        s = self.pick(LITERAL_STRINGS)
        q = self.pick(["'", '"'])
        s2 = s.replace(q, "\\" + q)
        return q + s2 + q

    def literal(self):
        return self.weighted([
            (6, self.str_lit),
            (3, lambda: self.pick(["0", "1", "42", "3.5", "0x10", "1e3"])),
            (1, lambda: self.pick(["true", "false", "null"])),
            (0.5, lambda: self.pick(["/ab+c/g", "/[/]/", "10n"])),
            (0.7, lambda: "`" + self.pick(["", "plain", "two words"]) + "`"),
        ])()

    def method_name(self):
        if self.r.random() < 0.7:
            return self.pick(self.methods_cfg)
        return self.pick(METHODS_OTHER)

    # ---- expressions ---------------------------------------------------------------------
    def expr(self, ctx, d=0, nolit=False):
        if d >= self.max_depth:
            return self.atom(ctx, nolit)
        table = [
            (10, lambda: self.atom(ctx, nolit)),
            (12, lambda: self.plus(ctx, d)),
            (3, lambda: self.binop(ctx, d)),
            (5, lambda: self.template(ctx, d)),
            (9, lambda: self.method_call(ctx, d)),
            (3, lambda: self.proto_call(ctx, d)),
            (5, lambda: self.opt_chain(ctx, d)),
            (3, lambda: self.assign(ctx, d)),
            (3, lambda: self.plain_call(ctx, d)),
            (3, lambda: self.member(ctx, d)),
            (2, lambda: "(" + self.expr(ctx, d + 1) + ")"),
            (2, lambda: self.cond(ctx, d)),
            (1.5, lambda: "(" + self.expr(ctx, d + 1) + ", " + self.expr(ctx, d + 1) + ")"),
            (2, lambda: self.array(ctx, d)),
            (2, lambda: self.object(ctx, d)),
            (2.5, lambda: self.arrow(ctx, d)),
            (1.5, lambda: self.fn_expr(ctx, d)),
            (0.8, lambda: self.class_expr(ctx, d)),
            (2, lambda: self.unary(ctx, d)),
            (1, lambda: self.pick(["++", "--"]) + self.ident()),
            (1, lambda: "new " + self.pick(["Foo", "RegExp", "o.C"]) + "(" + self.args(ctx, d) + ")"),
            (1, lambda: self.tagged(ctx, d)),
            (0.7, lambda: "import(" + self.expr(ctx, d + 1) + ")"),
        ]
        if ctx.gen:
            table.append((1.5, lambda: "(yield " + self.expr(ctx, d + 1) + ")"))
        if ctx.asy:
            table.append((1.5, lambda: "(await " + self.expr(ctx, d + 1) + ")"))
        if ctx.method:
            table.append((0.8, lambda: "super." + self.method_name() + "(" + self.args(ctx, d) + ")"))
        if ctx.fn and not ctx.module:
            table.append((0.4, lambda: "new.target"))
        e = self.weighted(table)()
        if nolit and self.looks_literal(e):
            return self.ident()
        return e

    @staticmethod
    def looks_literal(e):
        return e[:1] in "'\"`0123456789/" or e in ("true", "false", "null")

    def atom(self, ctx, nolit=False):
        if nolit or self.r.random() < 0.55:
            return self.weighted([(10, self.ident), (1, lambda: "this"), (0.5, lambda: "undefined")])()
        return self.literal()

    def operand(self, ctx, d):
        return self.weighted([
            (5, lambda: self.ident()),
            (4, lambda: self.literal()),
            (3, lambda: self.ident() + "()"),
            (2, lambda: self.ident() + "." + self.pick(["p", "q", "length"])),
            (1, lambda: self.ident() + "[" + self.expr(ctx, d + 1) + "]"),
            (5, lambda: self.expr(ctx, d + 1)),
            (1.5, lambda: "(" + self.literal() + " + " + self.literal() + ")"),
            (1, lambda: "(" + self.expr(ctx, d + 1) + ")"),
        ])()

    def plus(self, ctx, d):
        n = self.weighted([(6, lambda: 2), (3, lambda: 3), (1, lambda: 4)])()
        parts = [self.operand(ctx, d) for _ in range(n)]
        parts = [p if self.simple(p) else "(" + p + ")" for p in parts]
        return " + ".join(parts)

    @staticmethod
    def simple(p):
        import re
        return re.fullmatch(r"[A-Za-z_$][\w$]*(\(\))?(\.[\w$]+)?|'[^']*'|\"[^\"]*\"|`[^`$]*`|\d[\w.]*", p) is not None

    def binop(self, ctx, d):
        op = self.pick(["-", "*", "/", "%", "==", "===", "!=", "<", ">", "&&", "||", "??", "in", "instanceof", "&", "|", "**"])
        l, r = self.operand(ctx, d), self.operand(ctx, d)
        l = l if self.simple(l) else "(" + l + ")"
        r = r if self.simple(r) else "(" + r + ")"
        if op == "**" and l.startswith(("-", "typeof", "!")):
            l = "(" + l + ")"
        return l + " " + op + " " + r

    def template(self, ctx, d):
        n = self.weighted([(4, lambda: 1), (3, lambda: 2), (1, lambda: 3), (0.5, lambda: 0)])()
        out = ["`", self.pick(["", "pre ", "\\n"])]
        for i in range(n):
            if self.r.random() < 0.15:
                sub = self.literal()
                if sub.startswith("`"):
                    sub = "'q'"
            else:
                sub = self.expr(ctx, d + 1, nolit=True)
                if self.r.random() < 0.06:
                    sub = self.ident() + ", " + sub          # a bare comma expression is a valid substitution
            out.append("${" + sub + "}")
            out.append(self.pick(["", " mid ", "-"]))
        out.append("`")
        return "".join(out)

    def tagged(self, ctx, d):
        return self.pick(["tag", "o.tag", "String.raw"]) + self.template(ctx, d)

    def receiver(self, ctx, d):
        return self.weighted([
            (6, self.ident),
            (2, lambda: self.ident() + "." + self.pick(["p", "q", "prototype"])),
            (2, lambda: self.ident() + "()"),
            (2, lambda: "(" + self.expr(ctx, d + 1) + ")"),
            (1.5, lambda: "[" + self.args(ctx, d) + "]"),
            (2.5, self.str_lit),
            (1, lambda: self.ident() + "[" + self.expr(ctx, d + 1) + "]"),
            (1, lambda: "this"),
            (0.7, lambda: "`t${" + self.ident() + "}`"),
            (0.7, lambda: self.method_call(ctx, d + 1)),
            (0.5, lambda: "new Foo()"),
            (0.3, lambda: "42"),
        ])()

    def arg(self, ctx, d):
        return self.weighted([
            (6, lambda: self.operand(ctx, d)),
            (1.5, lambda: "..." + self.operand_nl(ctx, d)),
            (0.5, lambda: "..." + self.str_lit()),
            (1, lambda: self.array(ctx, d)),
        ])()

    def operand_nl(self, ctx, d):
        e = self.operand(ctx, d)
        if not self.simple(e):
            e = "(" + e + ")"
        return e

    def args(self, ctx, d, lo=0, hi=3):
        n = self.r.randint(lo, hi)
        out = []
        for _ in range(n):
            a = self.arg(ctx, d)
            if not a.startswith("...") and ", " in a and not a.startswith(("(", "[", "{", "`", "'", '"')):
                a = "(" + a + ")"
            out.append(a)
        return ", ".join(out)

    def method_call(self, ctx, d):
        recv = self.receiver(ctx, d)
        if recv[:1].isdigit():
            recv = "(" + recv + ")"
        m = self.method_name()
        if self.r.random() < 0.08:
            return recv + "[" + self.pick(["'" + m + "'", self.ident()]) + "](" + self.args(ctx, d) + ")"
        return recv + "." + m + "(" + self.args(ctx, d) + ")"

    def proto_call(self, ctx, d):
        path = self.weighted([
            (6, lambda: "String.prototype." + self.method_name()),
            (1, lambda: "Array.prototype." + self.method_name()),
            (1, lambda: self.ident() + "." + self.method_name()),
            (1, lambda: self.ident() + "()." + self.method_name()),
            (0.5, lambda: self.ident() + "[0]." + self.method_name()),
            (0.5, lambda: "''." + self.method_name()),
        ])()
        which = self.pick(["call", "call", "apply"])
        if which == "call":
            a = self.args(ctx, d, 0, 3)
        else:
            this = self.arg(ctx, d)
            second = self.weighted([
                (6, lambda: "[" + self.array_elems(ctx, d) + "]"),
                (1.5, lambda: "..." + self.ident()),
                (1, self.ident),
                (0.5, lambda: "arguments" if ctx.fn else self.ident()),
                (0.7, lambda: None),
            ])()
            a = this if second is None else this + ", " + second
            if self.r.random() < 0.1:
                a += ", " + self.ident()
        return path + "." + which + "(" + a + ")"

    def opt_chain(self, ctx, d):
        base = self.weighted([(5, self.ident), (2, lambda: self.ident() + "()"), (1, lambda: self.ident() + ".p"),
                              (1, lambda: "(" + self.expr(ctx, d + 1) + ")"), (0.5, self.str_lit)])()
        links = self.r.randint(1, 3)
        out = base
        used_opt = False
        for i in range(links):
            optional = self.r.random() < 0.6 or (i == links - 1 and not used_opt)
            used_opt = used_opt or optional
            kind = self.weighted([(5, lambda: "m"), (3, lambda: "p"), (1.5, lambda: "c"), (1, lambda: "i")])()
            q = "?." if optional else "."
            if kind == "m":
                out += q + self.method_name() + "(" + self.args(ctx, d) + ")"
            elif kind == "p":
                out += q + self.pick(["p", "q", "prototype", "length"])
            elif kind == "c":
                out += ("?.(" if optional else "(") + self.args(ctx, d) + ")"
            else:
                out += ("?.[" if optional else "[") + self.expr(ctx, d + 1) + "]"
        return out

    def lhs(self, ctx, d):
        return self.weighted([
            (6, self.ident),
            (2, lambda: self.ident() + "." + self.pick(["p", "q"])),
            (1, lambda: self.ident() + "[" + self.expr(ctx, d + 1) + "]"),
            (0.7, lambda: self.ident() + "()." + self.pick(["p", "q"])),
            (0.5, lambda: self.ident() + "[i++]"),
            (0.3, lambda: "(" + self.ident() + ")"),
        ])()

    def assign(self, ctx, d):
        op = self.weighted([(6, lambda: "+="), (3, lambda: "="), (1, lambda: "-="), (0.5, lambda: "||="), (0.5, lambda: "??=")])()
        if op == "=" and self.r.random() < 0.2:
            return "[" + self.ident() + ", " + self.ident() + "] = " + self.expr(ctx, d + 1)
        l = self.lhs(ctx, d)
        if op in ("||=", "??=") and l.startswith("("):
            l = self.ident()
        return l + " " + op + " " + self.expr(ctx, d + 1)

    def plain_call(self, ctx, d):
        f = self.weighted([(4, self.ident), (2, lambda: "aloneMethod"), (1, lambda: "require"),
                           (1, lambda: "(" + self.expr(ctx, d + 1) + ")"), (0.5, lambda: "eval")])()
        if f == "require" and self.r.random() < 0.7:
            return "require(" + self.str_lit() + ")"
        return f + "(" + self.args(ctx, d) + ")"

    def member(self, ctx, d):
        o = self.receiver(ctx, d)
        if o[:1].isdigit():
            o = "(" + o + ")"
        return self.weighted([
            (3, lambda: o + "." + self.pick(["p", "length", "prototype"])),
            (1, lambda: o + "[" + self.expr(ctx, d + 1) + "]"),
            (0.15, lambda: o + "[" + self.ident() + ", " + self.expr(ctx, d + 1) + "]"),   # ... and a valid computed key
            (0.3, lambda: o + ".#priv" if False else o + ".p"),
        ])()

    def cond(self, ctx, d):
        return self.operand_nl(ctx, d) + " ? " + self.wrap_seq(self.expr(ctx, d + 1)) + " : " + self.wrap_seq(self.expr(ctx, d + 1))

    def wrap_seq(self, e):
        return e

    def array_elems(self, ctx, d):
        n = self.r.randint(0, 4)
        out = []
        for _ in range(n):
            out.append(self.weighted([
                (6, lambda: self.operand_nl(ctx, d)),
                (1, lambda: ""),
                (1.5, lambda: "..." + self.operand_nl(ctx, d)),
            ])())
        s = ", ".join(out)
        if out and out[-1] == "":
            s += ","
        return s

    def array(self, ctx, d):
        return "[" + self.array_elems(ctx, d) + "]"

    def prop_key(self, ctx, d):
        return self.weighted([(5, lambda: self.pick(["k", "p", "name", "trim"])), (1.5, self.str_lit),
                              (1, lambda: "[" + self.expr(ctx, d + 1) + "]"), (0.5, lambda: "7")])()

    def object(self, ctx, d):
        n = self.r.randint(0, 3)
        props = []
        for _ in range(n):
            props.append(self.weighted([
                (6, lambda: self.prop_key(ctx, d) + ": " + self.operand_nl(ctx, d)),
                (1, self.ident),
                (1, lambda: "..." + self.operand_nl(ctx, d)),
                (1.5, lambda: self.prop_key(ctx, d) + self.fn_rest(ctx.fresh_fn(method=True), d)),
                (0.7, lambda: "get " + self.pick(["g", "h"]) + "() " + self.block(ctx.fresh_fn(method=True), d + 1, ret=True)),
                (0.5, lambda: "set " + self.pick(["g", "h"]) + "(v) " + self.block(ctx.fresh_fn(method=True), d + 1)),
                (0.5, lambda: "async *" + self.pick(["ag"]) + self.fn_rest(ctx.fresh_fn(gen=True, asy=True, method=True), d)),
            ])())
        return "({" + ", ".join(props) + "})"

    def param(self, ctx, d, allow_default=True):
        name = self.ident()
        return self.weighted([
            (6, lambda: name),
            (2.5 if allow_default else 0, lambda: name + " = " + self.expr(ctx, d + 1)),
            (1, lambda: "{" + name + ", k: " + self.ident() + "x}"),
            (1, lambda: "[" + name + ", " + self.ident() + "y = " + self.expr(ctx, d + 1) + "]"),
        ])()

    def params(self, ctx, d):
        n = self.r.randint(0, 3)
        ps = []
        seen = set()
        for i in range(n):
            p = self.param(ctx, d)
            key = p.split(" ")[0].strip("{[,")
            if key in seen:
                continue
            seen.add(key)
            ps.append(p)
        # avoid duplicate bindings (syntax error in arrows / strict / with defaults): rename
        ps = [self.uniq(p, i) for i, p in enumerate(ps)]
        if self.r.random() < 0.15:
            ps.append("...rest")
        return ", ".join(ps)

    @staticmethod
    def uniq(p, i):
        import re
        # rename the bound names of parameter i so that no two parameters clash
        m = re.match(r"([A-Za-z_$][\w$]*)(.*)", p, re.S)
        if m:
            return m.group(1) + str(i) + m.group(2)
        p = re.sub(r"^\{([A-Za-z_$][\w$]*), k: ([A-Za-z_$][\w$]*)\}", lambda mm: "{%s%d, k: %s%d}" % (mm.group(1), i, mm.group(2), i), p)
        p = re.sub(r"^\[([A-Za-z_$][\w$]*), ([A-Za-z_$][\w$]*) =", lambda mm: "[%s%d, %s%d =" % (mm.group(1), i, mm.group(2), i), p)
        return p

    def arrow(self, ctx, d):
        asy = self.r.random() < 0.15
        c2 = ctx.fresh_fn(asy=asy, arrow=True)
        c2.gen = False
        ps = self.params(c2.sub(asy=False) if asy else c2, d)
        head = ("async " if asy else "") + "(" + ps + ") => "
        if self.r.random() < 0.6:
            body = self.expr(c2, d + 1)
            if body.startswith("{") or body.startswith("({") is False and ", " in body and not body.startswith("("):
                body = "(" + body + ")"
            if body.startswith("{"):
                body = "(" + body + ")"
            return "(" + head + body + ")"
        return "(" + head + self.block(c2, d + 1, ret=True) + ")"

    def fn_rest(self, c2, d):
        ps = self.params(c2.sub(asy=False, gen=False) if (c2.asy or c2.gen) else c2, d)
        import re
        simple = re.fullmatch(r"([A-Za-z_$][\w$]*(, )?)*", ps) is not None
        return "(" + ps + ") " + self.block(c2, d + 1, ret=True, directives=simple)

    def fn_expr(self, ctx, d):
        gen = self.r.random() < 0.15
        asy = self.r.random() < 0.15
        c2 = ctx.fresh_fn(gen=gen, asy=asy)
        return "(" + ("async " if asy else "") + "function" + ("*" if gen else "") + " " + self.pick(["", "named"]) + self.fn_rest(c2, d) + ")"

    def class_body(self, ctx, d, derived):
        n = self.r.randint(0, 4)
        ms = []
        for _ in range(n):
            c2 = ctx.fresh_fn(method=True).sub(derived=derived, strict=True)
            ms.append(self.weighted([
                (4, lambda: self.pick(["m", "trim", "n"]) + self.fn_rest(c2, d)),
                (1, lambda: "static " + self.pick(["sm"]) + self.fn_rest(c2, d)),
                (2, lambda: self.pick(["f1", "f2"]) + " = " + self.expr(c2.sub(fn=True), d + 1) + ";"),
                (1, lambda: "static sf = " + self.expr(c2.sub(fn=True), d + 1) + ";"),
                (1, lambda: "#priv = " + self.expr(c2.sub(fn=True), d + 1) + ";"),
                (1, lambda: "static " + self.block(c2, d + 1)),
                (1, lambda: "get g() " + self.block(c2, d + 1, ret=True)),
                (0.7, lambda: "*gen" + self.fn_rest(c2.sub(gen=True), d)),
                (0.7, lambda: "async am" + self.fn_rest(c2.sub(asy=True), d)),
                (1, lambda: "constructor(" + self.params(c2, d) + ") { " + ("super(); " if derived else "") + self.stmts(c2, d + 1, 2) + " }"),
                (0.5, lambda: "[" + self.expr(c2.sub(fn=False), d + 1) + "]() {}"),
            ])())
        # at most one constructor
        seen = False
        out = []
        for m in ms:
            if m.startswith("constructor("):
                if seen:
                    continue
                seen = True
            out.append(m)
        # unique names for fields / getters to avoid duplicate private names
        out2, names = [], set()
        for m in out:
            key = m.split("(")[0].split("=")[0].strip()
            if key in ("#priv", "get g") and key in names:
                continue
            names.add(key)
            out2.append(m)
        return "{ " + " ".join(out2) + " }"

    def class_expr(self, ctx, d):
        derived = self.r.random() < 0.3
        return "(class " + self.pick(["", "K"]) + (" extends " + self.pick(["Base", "(a + b)"]) if derived else "") + " " + self.class_body(ctx, d, derived) + ")"

    def unary(self, ctx, d):
        op = self.pick(["typeof ", "!", "-", "void ", "delete ", "+", "~"])
        if op == "delete ":
            return "delete " + self.ident() + "[" + self.expr(ctx, d + 1) + "]"
        e = self.operand_nl(ctx, d)
        return op + ("(" + e + ")" if not self.simple(e) or e[:1] in "+-" else e)

    # ---- statements ----------------------------------------------------------------------
    def stmts(self, ctx, d, n=None):
        n = self.r.randint(1, 4) if n is None else n
        return " ".join(self.stmt(ctx, d) for _ in range(n))

    def block(self, ctx, d, ret=False, directives=False):
        out = []
        if directives and self.r.random() < 0.25:
            k = self.r.randint(1, 3)
            for _ in range(k):
                out.append(self.pick(["'use strict';", '"use strict";', "'use asm';", "'other directive';", '"use strict"', "'use\\x20strict';"]))
        if d < self.max_depth + 1:
            out.append(self.stmts(ctx, d))
        if ret and ctx.fn and self.r.random() < 0.7:
            out.append("return " + self.expr(ctx, d + 1) + ";")
        return "{ " + "\n".join(out) + " }"

    def decl(self, ctx, d):
        kind = self.pick(["const", "let", "var"])
        n = self.r.randint(1, 2)
        parts = []
        for _ in range(n):
            nm = self.pick(["v", "w", "u", "t"]) + str(self.r.randrange(100))
            parts.append(self.weighted([
                (6, lambda: nm + " = " + self.expr(ctx, d + 1)),
                (1, lambda: "{" + nm + "} = " + self.expr(ctx, d + 1)),
                (1, lambda: "[" + nm + " = " + self.expr(ctx, d + 1) + "] = " + self.expr(ctx, d + 1)),
                (1 if kind != "const" else 0, lambda: nm),
            ])())
        return kind + " " + ", ".join(parts) + ";"

    def body_stmt(self, ctx, d, braces=None):
        braces = self.r.random() < 0.6 if braces is None else braces
        if braces:
            return self.block(ctx, d + 1)
        return self.simple_stmt(ctx, d + 1)

    def simple_stmt(self, ctx, d):
        e = self.expr(ctx, d)
        if e.startswith(("{", "function", "class", "let ", "let[", "async function")):
            e = "(" + e + ")"
        return e + ";"

    def stmt(self, ctx, d):
        if d >= self.max_depth + 1:
            return self.simple_stmt(ctx, d)
        table = [
            (10, lambda: self.simple_stmt(ctx, d)),
            (7, lambda: self.decl(ctx, d)),
            (5, lambda: self.if_stmt(ctx, d)),
            (2, lambda: self.block(ctx, d + 1)),
            (2, lambda: "for (let i = 0; " + self.expr(ctx, d + 1) + "; i++) " + self.body_stmt(ctx.sub(loop=True), d)),
            (1.5, lambda: "for (const k in " + self.expr(ctx, d + 1) + ") " + self.body_stmt(ctx.sub(loop=True), d)),
            (2, lambda: "for (const e of " + self.expr(ctx, d + 1) + ") " + self.body_stmt(ctx.sub(loop=True), d)),
            (1.5, lambda: "while (" + self.expr(ctx, d + 1) + ") " + self.body_stmt(ctx.sub(loop=True), d)),
            (1, lambda: "do " + self.body_stmt(ctx.sub(loop=True), d, braces=True) + " while (" + self.expr(ctx, d + 1) + ");"),
            (1.5, lambda: self.switch(ctx, d)),
            (2, lambda: self.try_stmt(ctx, d)),
            (3, lambda: self.fn_decl(ctx, d)),
            (1.5, lambda: self.class_decl(ctx, d)),
            (1, lambda: "throw " + self.expr(ctx, d + 1) + ";"),
            (0.7, lambda: self.labeled(ctx, d)),
            (0.5, lambda: ";"),
            (0.3, lambda: "debugger;"),
        ]
        if ctx.fn:
            table.append((3, lambda: "return " + self.expr(ctx, d + 1) + ";"))
            table.append((0.5, lambda: "return;"))
        if ctx.loop:
            table.append((0.7, lambda: "break;"))
            table.append((0.7, lambda: "continue;"))
        elif ctx.switch:
            table.append((0.7, lambda: "break;"))
        if not ctx.strict and not ctx.module:
            table.append((0.4, lambda: "with (" + self.expr(ctx, d + 1) + ") " + self.body_stmt(ctx, d)))
        if ctx.asy:
            table.append((0.7, lambda: "for await (const e of " + self.expr(ctx, d + 1) + ") " + self.body_stmt(ctx.sub(loop=True), d)))
        return self.weighted(table)()

    def if_stmt(self, ctx, d):
        s = "if (" + self.expr(ctx, d + 1) + ") " + self.body_stmt(ctx, d)
        r = self.r.random()
        if r < 0.35:
            s += " else " + self.body_stmt(ctx, d)
        elif r < 0.5:
            s += " else " + self.if_stmt(ctx, d + 1)
        return s

    def switch(self, ctx, d):
        n = self.r.randint(1, 3)
        c2 = ctx.sub(switch=True)
        cases = []
        for i in range(n):
            cases.append("case " + self.expr(ctx, d + 1) + ": " + self.stmts(c2, d + 1, self.r.randint(0, 2)) + (" break;" if self.r.random() < 0.5 else ""))
        if self.r.random() < 0.5:
            cases.append("default: " + self.stmts(c2, d + 1, 1))
        return "switch (" + self.expr(ctx, d + 1) + ") { " + " ".join(cases) + " }"

    def try_stmt(self, ctx, d):
        s = "try " + self.block(ctx, d + 1)
        r = self.r.random()
        if r < 0.6:
            s += " catch (err) " + self.block(ctx, d + 1)
        elif r < 0.75:
            s += " catch " + self.block(ctx, d + 1)
        if r >= 0.75 or self.r.random() < 0.3:
            s += " finally " + self.block(ctx, d + 1)
        return s

    def fn_decl(self, ctx, d):
        gen = self.r.random() < 0.15
        asy = self.r.random() < 0.15
        c2 = ctx.fresh_fn(gen=gen, asy=asy).sub(method=False)
        return ("async " if asy else "") + "function" + ("* " if gen else " ") + self.pick(["f", "g", "h"]) + str(self.r.randrange(1000)) + self.fn_rest(c2, d)

    def class_decl(self, ctx, d):
        derived = self.r.random() < 0.3
        return "class C" + str(self.r.randrange(1000)) + (" extends Base" if derived else "") + " " + self.class_body(ctx, d, derived)

    def labeled(self, ctx, d):
        self.label_n += 1
        lab = "L%d" % self.label_n
        return lab + ": for (;;) { " + self.stmts(ctx.sub(loop=True), d + 1, 1) + " break " + lab + "; }"

    # ---- programs ------------------------------------------------------------------------
    def program(self):
        module = self.r.random() < 0.15
        ctx = Ctx(module=module, strict=module)
        out = []
        if not module and self.r.random() < 0.3:
            k = self.r.randint(1, 2)
            for _ in range(k):
                out.append(self.pick(["'use strict';", '"use strict";', "'other';", "'use strict'"]))
            if any("use strict" in o for o in out):
                ctx = ctx.sub(strict=True)
        if module:
            out.append(self.pick(["import x1 from 'some/module/path';", "import { y1 as z1 } from \"another-module-name\";", "import * as ns from './relative/path.js';"]))
        n = self.r.randint(1, 5)
        for _ in range(n):
            out.append(self.stmt(ctx, 0))
        if module:
            out.append(self.pick(["export default " + self.expr(ctx, 1) + ";", "export const ex = " + self.expr(ctx, 1) + ";",
                                  "export function ef(a) " + self.block(ctx.fresh_fn(), 1, ret=True), "export { x1 as renamed };"]))
        return "\n".join(out) + "\n"


def program(seed, index, **kw):
    rng = random.Random("%s/%s" % (seed, index))
    g = Gen(rng, **kw)
    return g.program()


if __name__ == "__main__":
    import sys
    seed = sys.argv[1] if len(sys.argv) > 1 else "0"
    n = int(sys.argv[2]) if len(sys.argv) > 2 else 3
    for i in range(n):
        print("// ---- %d" % i)
        print(program(seed, i))
