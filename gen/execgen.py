#!/usr/bin/env python3
"""Executable programs for the differential-execution oracle (C01, C03, C06): every expression is
built from free variables that the driver binds to observable proxies (tools/diff_exec.js); `m` is a
mutator (any interaction with it reassigns the simple globals), so a reordered read shows."""
import random

ATOMS = ["a", "b", "c", "x", "y", "s", "k", "str", "num", "nul", "undef", "'lit'", "42", "m", "o.p", "o.q.r", "f()", "g(a)", "o.m(b)", "arr[k]", "o[f()]",
         "f.str()", "f.num()", "f.undef()", "f.nul()", "(a)", "('x' + 'y')", "[a, b]", "`t${a}`", "-m", "+x", "!a", "typeof b", "i++", "(x = y)", "(a, b)",
         "a?.p", "o?.m?.(a)", "new F(a)", "m.p", "m()", "`${m}`", "o.throws", "f.boom()", "null", "this", "(() => a)()", "a ? b : c", "a && f()", "nul ?? g()"]
ARGS = ["", "a", "'lit'", "a, b", "f(), b", "...r", "a, ...r", "m, a", "a, m", "[a, b]", "[[x, y], z]", "o.p, f()", "undef", "1, 2"]
METHODS = ["trim", "substring", "concat", "replace", "slice", "trimStart", "toUpperCase", "foo"]
RECV = ["a", "str", "'lit'", "f()", "o.p", "(a)", "[a, b]", "m", "this", "`t${a}`", "str.trim()", "nul", "undef", "o[k]", "f.str()"]
TARGETS = ["x", "o.p", "o[k]", "o[f()]", "f().p", "o.p.q", "arr[i++]", "this.v", "m.p", "o[a + b]", "o[-k]", "o[+k]", "(o[-k])", "o[`${k}`]", "o[k ? 'a' : 'b']",
           "o[k.p]", "o[typeof k]", "o[!k]", "o[~k]", "o[k - 1]", "o[(k, 1)]", "o[k?.p]", "o.p[-k]", "o[k][-i]", "o[-1]", "o[m]", "o[-m]", "o[m.p]",
           # both the object and the computed key have effects: their order is visible
           "f()[g(a)]", "o.p[f()]", "g(a)[k + 1]", "f()[m.p]", "m.p[f()]", "o.q.r[g(b)]", "f()[g(a)].p", "f().p[g(a)]", "(a, o)[f()]", "o[f()][g(a)]",
           # the key's evaluation changes the variable the object is read from (the object is read first)
           "x[(x = y, 'p')]", "o[(o = obj, k)]", "x[f(x = y)]", "arr[(arr = r, 0)]", "x[`${(x = y, k)}`]", "x[(x = y).p]", "x[k + (x = y, 1)].q",
           # an instrumented operation in the key of a link that is not the last one
           "o[a + b].p", "o[k + 1].p.q", "o[`${k}`].p", "o[a + b][k + 1]", "o.p[str.concat(a)].q", "this[a + b].v", "o[f.str().trim()][i]"]
ARRS = ["[a, b]", "[]", "[a, , b]", "[...r]", "[a, ...r]", "[[x, y], z]", "[f(), g()]", "arr", "...r", "[m, a]"]


def expr(rng, d=0):
    def atom():
        return rng.choice(ATOMS)
    def sub():
        return expr(rng, d + 1) if d < 2 and rng.random() < 0.35 else atom()
    def par(e):
        return e if e.replace("_", "a").isalnum() and not e[0].isdigit() else "(" + e + ")"
    forms = [
        lambda: "%s + %s" % (par(sub()), par(sub())),
        lambda: "%s + %s + %s" % (par(sub()), par(sub()), par(sub())),
        lambda: "%s + (%s + %s)" % (par(sub()), par(sub()), par(sub())),
        lambda: "(%s += %s)" % (rng.choice(TARGETS), sub()),
        lambda: "`p${%s}q${%s}`" % (sub(), sub()),
        lambda: "`${%s}`" % sub(),
        lambda: "%s.%s(%s)" % (par(rng.choice(RECV)), rng.choice(METHODS), rng.choice(ARGS)),
        lambda: "%s?.%s(%s)" % (par(rng.choice(RECV)), rng.choice(METHODS), rng.choice(ARGS)),
        lambda: "%s?.p.%s(%s)" % (par(rng.choice(RECV)), rng.choice(METHODS), rng.choice(ARGS)),
        lambda: "%s?.%s(%s)?.%s(%s)" % (par(rng.choice(RECV)), rng.choice(METHODS), rng.choice(ARGS), rng.choice(METHODS), rng.choice(ARGS)),
        lambda: "%s.prototype.%s.call(%s%s)" % (rng.choice(["String", "P"]), rng.choice(METHODS[:7]), rng.choice(RECV), rng.choice(["", ", " + rng.choice(ARGS[1:])])),
        lambda: "%s.prototype.%s.apply(%s, %s)" % (rng.choice(["String", "P"]), rng.choice(METHODS[:7]), rng.choice(RECV), rng.choice(ARRS)),
        lambda: "%s.prototype.%s.apply(%s, %s, %s)" % (rng.choice(["String", "P"]), rng.choice(METHODS[:7]), rng.choice(RECV), rng.choice(ARRS[:8]), sub()),
        lambda: "%s.prototype.%s.apply(%s, %s, %s, %s)" % (rng.choice(["String", "P"]), rng.choice(METHODS[:7]), rng.choice(RECV), rng.choice(ARRS[:8]), sub(), sub()),
        lambda: "''.%s.%s(%s, %s)" % (rng.choice(METHODS[:7]), rng.choice(["call", "apply"]), rng.choice(RECV), rng.choice(ARRS)),
        lambda: "aloneMethod(%s)" % rng.choice(ARGS),
        lambda: "aloneMethod((aloneMethod = %s, %s))" % (rng.choice(["g", "f"]), rng.choice(["1", "a"])),
        lambda: "%s.trim(%s).concat(%s)" % (par(rng.choice(RECV)), rng.choice(ARGS[:3]), rng.choice(ARGS)),
        lambda: "delete o[%s]" % sub(),
        # an optional CALL whose callee is a member access (optional, parenthesised, or reached through an earlier optional link): its receiver is the call's this
        lambda: "%s?.str?.(%s).%s(%s)" % (rng.choice(["o", "m", "f", "o.p"]), rng.choice(ARGS), rng.choice(METHODS), rng.choice(ARGS)),
        lambda: "(%s.str)?.(%s).%s(%s)" % (rng.choice(["o", "m", "o.p"]), rng.choice(ARGS), rng.choice(METHODS), rng.choice(ARGS)),
        lambda: "%s?.[%s]?.(%s).%s(%s)" % (rng.choice(["o", "m"]), rng.choice(["'str'", "k"]), rng.choice(ARGS), rng.choice(METHODS), rng.choice(ARGS)),
        lambda: "%s?.p.str?.(%s).%s(%s)" % (rng.choice(["o", "m"]), rng.choice(ARGS), rng.choice(METHODS), rng.choice(ARGS)),
        # a parenthesised optional chain inside an outer chain: its short circuit ends at the parenthesis
        lambda: "(%s?.%s(%s)).p?.q" % (rng.choice(["nul", "undef", "o", "m", "str"]), rng.choice(METHODS), rng.choice(ARGS)),
        lambda: "(%s?.p.%s(%s)).length?.q.r" % (rng.choice(["nul", "undef", "o", "m"]), rng.choice(METHODS), rng.choice(ARGS)),
        lambda: "(%s?.%s(%s))?.p.q" % (rng.choice(["nul", "undef", "o", "str"]), rng.choice(METHODS), rng.choice(ARGS)),
        # the same variable on both sides of an operation whose other operand changes it
        lambda: rng.choice(["i + i++", "i + ++i", "(i += i++)", "i++ + i", "x + (x = y)", "x + -m", "x + typeof (x = y)", "i + -i--", "(x += -(x = y))", "`${i}` + i++", "x.concat(x = y)", "i + i++ + i"]),
        # delete of an optional chain with an instrumentable call inside: the operand must stay a reference
        lambda: "delete %s?.%s(%s).p" % (rng.choice(["o", "m", "f"]), rng.choice(METHODS), rng.choice(ARGS)),
        lambda: "delete o?.p.%s(%s)[%s]" % (rng.choice(METHODS), rng.choice(ARGS), rng.choice(["'q'", "k", sub()])),
        lambda: "delete o.p?.[%s]" % sub(),
        lambda: "((p = %s) => p + %s)()" % (sub(), sub()),
        lambda: "(function (n, d = n + %s) { return d; })(%s)" % (sub(), sub()),
        lambda: "[%s, ...%s]" % (sub(), par(sub())),
        lambda: "{ k: %s, [%s]: 1 }.k" % (sub(), sub()),
        lambda: "(%s ? %s : %s)" % (sub(), sub(), sub()),
        lambda: sub(),
        # the same variable read more than once around an operand that changes it
        lambda: "`${x}:${%s}:${x}`" % rng.choice(["x = y", "m.p", "m()", "f()", "i++"]),
        lambda: "`${i}:${i++}:${i}`",
        lambda: "str.concat(x, %s, x)" % rng.choice(["(x = y)", "m.p", "m()", "f()"]),
        lambda: "x.concat(x, %s)" % rng.choice(["(x = y)", "m.p", "x"]),
        lambda: "x + %s + x" % rng.choice(["(x = y)", "m.p", "m()", "f()"]),
        lambda: "str.replace(a, %s, a)" % rng.choice(["m.p", "(a = b)"]),
        # a conditional inside an instrumented expression whose test needs temporaries of its own
        lambda: "%s + ((%s + %s).length > 1 ? 'L' : 'S')" % (rng.choice(["f()", "f.str()", "g(a)"]), rng.choice(["g(a)", "f.str()", "a"]), rng.choice(["f.str()", "g(b)"])),
        lambda: "`${%s}${(%s + %s + %s) ? x : y}`" % (rng.choice(["f()", "g(a)"]), rng.choice(["g(a)", "a"]), rng.choice(["f.str()", "g(b)"]), rng.choice(["f()", "b"])),
        lambda: "%s.concat(((%s + %s) ? f.str() : 'S'), %s)" % (rng.choice(["f.str()", "str"]), rng.choice(["g(a)", "f.str()"]), rng.choice(["f.str()", "g(b)"]), sub()),
        lambda: "(%s ? %s + %s : %s) + %s" % (sub(), par(sub()), par(sub()), sub(), par(sub())),
        # a bare comma expression where the grammar allows a full Expression
        lambda: "`x${%s, %s}y`" % (sub(), sub()),
        lambda: "(o[%s, k] += %s)" % (sub(), sub()),
        lambda: "o[%s, 'p'].trim()" % sub(),
    ]
    e = rng.choice(forms)()
    if e.startswith("{"):
        e = "(" + e + ")"
    return e


STMTS = [
    "try { RES.push(%s); } catch (e) { RES.push('T:' + e.constructor.name); }",
    "try { const v = %s; RES.push(v); } catch (e) { RES.push('T:' + e.constructor.name); }",
    "try { if (%s) RES.push(1); else RES.push(%s); } catch (e) { RES.push('T:' + e.constructor.name); }",
    "try { if (cond) x = %s; else y = %s; RES.push(x); } catch (e) { RES.push('T:' + e.constructor.name); }",
    "try { for (let j = 0; j < 2; j++) { RES.push(%s); } } catch (e) { RES.push('T:' + e.constructor.name); }",
    "try { for (const e of [1, 2]) RES.push(%s); } catch (e) { RES.push('T:' + e.constructor.name); }",
    "try { switch (%s) { case %s: RES.push('c'); break; default: RES.push(%s); } } catch (e) { RES.push('T:' + e.constructor.name); }",
    "try { RES.push(%s); } catch (e) { RES.push(%s); } finally { RES.push(%s); }",
    "try { (function inner() { 'use strict'; RES.push(%s); }).call(o); } catch (e) { RES.push('T:' + e.constructor.name); }",
    "try { RES.push((() => %s)()); } catch (e) { RES.push('T:' + e.constructor.name); }",
    "try { class K { static s = %s; m(p = %s) { return p; } } RES.push(K.s, new K().m()); } catch (e) { RES.push('T:' + e.constructor.name); }",
    "try { function rec(n, acc = 'r' + n + (n > 0 ? rec(n - 1) : %s)) { return acc; } RES.push(rec(2)); } catch (e) { RES.push('T:' + e.constructor.name); }",
    "try { function* gen() { yield %s; return %s; } const it = gen(); RES.push(it.next().value, it.next().value); } catch (e) { RES.push('T:' + e.constructor.name); }",
    "try { lbl: { RES.push(%s); break lbl; } } catch (e) { RES.push('T:' + e.constructor.name); }",
    "try { o[%s] += %s; RES.push(1); } catch (e) { RES.push('T:' + e.constructor.name); }",
    "try { let w = 'w'; w += %s; RES.push(w); } catch (e) { RES.push('T:' + e.constructor.name); }",
    # an optional call of a super method is a call on `this`
    "try { class P1 { m(v) { RES.push(this instanceof P1 ? 'this' : 'nothis'); return str; } } class Q1 extends P1 { r() { return %s; } } RES.push(new Q1().r()); } catch (e) { RES.push('T:' + e.constructor.name); }",
    # `this` is not a constant: in the constructor of a derived class it is uninitialised until super() has returned
    "try { class A0 { constructor() { RES.push('A0'); this.v = 'v'; } toString() { return 'obj'; } } class B0 extends A0 { constructor() { let s; try { s = %s; } catch (e) { RES.push('T:' + e.constructor.name); super(); } RES.push(typeof s, String(s)); } } new B0(); } catch (e) { RES.push('T:' + e.constructor.name); }",
]
SUPER_CALLS = ["super.m?.(a).trim()", "(super.m)?.(a).concat(b)", "super['m']?.(f()).trim()", "super.nope?.(a).trim()", "super.m?.(a)?.trim()", "super.m?.(a).trim() + super.m(b)",
               "super[k]?.(a).concat(super.m?.(b))", "`${super.m?.(a).trim()}`"]
SUPER_EXPRS = ["this + (super(), 'x')", "`${this}${super()}`", "str.concat(this, super())", "(super(), 'x') + this", "this.v + (super(), 'y')", "`${super()}${this.v}`", "str.concat(super(), this)",
               "this + f() + (super(), 'x')", "str.replace(this, (super(), 'z'))", "(() => this + (super(), 'x'))()", "this.v.concat((super(), 'x'))", "a + this + (super(), b)"]


def program(seed, i, strict=None):
    rng = random.Random("%s/exec/%d" % (seed, i))
    body = []
    for _ in range(rng.randrange(2, 6)):
        st = rng.choice(STMTS)
        exprs = tuple(expr(rng) for _ in range(st.count("%s")))
        if "class B0" in st:
            exprs = (rng.choice(SUPER_EXPRS),)
        if "class Q1" in st:
            exprs = (rng.choice(SUPER_CALLS),)
        if "class K" in st:
            # `this` in a static initialiser is the class itself, whose string form is its source text
            exprs = tuple(e.replace("this", "o") for e in exprs)
        body.append(st % exprs)
    use_strict = (rng.random() < 0.3) if strict is None else strict
    return ("'use strict';\n" if use_strict else "") + "var RES = [];\nfunction main() {\n  " + "\n  ".join(body) + "\n  return RES;\n}\n"


if __name__ == "__main__":
    import sys
    for k in range(int(sys.argv[2]) if len(sys.argv) > 2 else 3):
        print(program(sys.argv[1] if len(sys.argv) > 1 else "1", k)); print("// ----")
