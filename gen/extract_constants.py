#!/usr/bin/env python3
"""Translator: regenerate coq/Generated.v (constants the model and theorems depend on) and
.cache/panic_sites.json (inventory of partial operations) from /repo's current sources.
Every extraction is anchored; a failed extraction is reported and makes the run fail
(= a broken obligation: the model can no longer be tied to the code)."""
import json, os, re, sys
REPO = os.environ.get("VERIF_REPO", "/repo")
HERE = os.path.dirname(os.path.dirname(os.path.abspath(__file__)))

errors = []
_SRC = {}
def read(p):
    s = open(os.path.join(REPO, p), encoding="utf-8").read()
    _SRC[id(s)] = p
    return s

def grab(text, pattern, what, flags=0, group=1):
    m = re.search(pattern, text, flags)
    if not m:
        # the file is named so that a check only treats the failure as its own when it depends on constants of that file
        errors.append("[%s] cannot extract %s (pattern %r)" % (_SRC.get(id(text), "?"), what, pattern))
        return None
    return m.group(group)

def coq_str(s):
    if s is None:
        return '"<EXTRACTION FAILED>"'
    out = []
    for ch in s:
        if ch == '"':
            out.append('""')
        else:
            out.append(ch)
    return '"' + "".join(out) + '"'

def rust_unescape(s):
    if s is None:
        return None
    return s.replace('\\n', '\n').replace('\\"', '"').replace("\\\\", "\\")

def main():
    vu = read("src/visitor/visitor_util.rs")
    opv = read("src/visitor/operation_transform_visitor.rs")
    csi = read("src/visitor/csi_methods.rs")
    fpt = read("src/transform/function_prototype_transform.rs")
    lv = read("src/visitor/literal_visitor.rs")
    rw = read("src/rewriter.rs")
    lw = read("src/lib_wasm.rs")
    tel = read("src/telemetry.rs")
    ut = read("src/util.rs")
    btv = read("src/visitor/block_transform_visitor.rs")
    smjs = read("js/source-map/index.js")
    mainjs = read("main.js")

    D = []
    def const(name, val, comment=""):
        D.append((name, "string", coq_str(val), comment))
    def raw(name, ty, val, comment=""):
        D.append((name, ty, val, comment))

    const("gen_DATADOG_VAR_PREFIX", grab(vu, r'const DATADOG_VAR_PREFIX: &str = "([^"]*)";', "DATADOG_VAR_PREFIX"), "visitor_util.rs")
    const("gen_DD_GLOBAL_NAMESPACE", grab(vu, r'const DD_GLOBAL_NAMESPACE: &str = "([^"]*)";', "DD_GLOBAL_NAMESPACE"), "visitor_util.rs")
    const("gen_DD_PLUS_OPERATOR", grab(vu, r'pub const DD_PLUS_OPERATOR: &str = "([^"]*)";', "DD_PLUS_OPERATOR"), "visitor_util.rs")
    const("gen_DD_TEMPLATE_LITERAL_OPERATOR", grab(vu, r'pub const DD_TEMPLATE_LITERAL_OPERATOR: &str = "([^"]*)";', "DD_TEMPLATE_LITERAL_OPERATOR"), "visitor_util.rs")
    # temp-name format: format!("{}{}", prefix(..), n) and format!("{DATADOG_VAR_PREFIX}_{prefix}_")
    const("gen_local_name_format", grab(vu, r'pub fn get_dd_local_variable_name\(n: usize, prefix: &String\) -> String \{\s*format!\("([^"]*)", get_dd_local_variable_prefix\(prefix\), n\)', "local variable name format"), "must be {}{}")
    const("gen_local_prefix_format", grab(vu, r'pub fn get_dd_local_variable_prefix\(prefix: &String\) -> String \{\s*format!\("([^"]*)"\)', "local variable prefix format"), "must be {DATADOG_VAR_PREFIX}_{prefix}_")
    const("gen_ADD_TAG", grab(opv, r'pub const ADD_TAG: &str = "([^"]*)";', "ADD_TAG"), "operation_transform_visitor.rs")
    const("gen_ADD_ASSIGN_TAG", grab(opv, r'pub const ADD_ASSING_TAG: &str = "([^"]*)";', "ADD_ASSING_TAG"))
    const("gen_TPL_TAG", grab(opv, r'pub const TPL_TAG: &str = "([^"]*)";', "TPL_TAG"))
    lc = grab(csi, r'method_with_literal_callers: vec!\[\s*((?:"[^"]*",?\s*)+)\]', "method_with_literal_callers")
    names = re.findall(r'"([^"]*)"', lc or "")
    raw("gen_lit_callers", "list string", "[" + "; ".join(coq_str(n) for n in names) + "]", "csi_methods.rs CsiMethods::new")
    const("gen_PROTOTYPE", grab(fpt, r'pub const PROTOTYPE: &str = "([^"]*)";', "PROTOTYPE"))
    const("gen_CALL", grab(fpt, r'pub const CALL_METHOD_NAME: &str = "([^"]*)";', "CALL_METHOD_NAME"))
    const("gen_APPLY", grab(fpt, r'pub const APPLY_METHOD_NAME: &str = "([^"]*)";', "APPLY_METHOD_NAME"))
    raw("gen_min_literal_length", "N", (grab(lv, r'min_literal_length: (\d+),', "min_literal_length") or "0") + "%N", "literal_visitor.rs")
    raw("gen_max_literal_length", "N", (grab(lv, r'max_literal_length: (\d+),', "max_literal_length") or "0") + "%N")
    cmp_ = re.search(r'if value\.len\(\) (>=|>) self\.min_literal_length && value\.len\(\) (<=|<) self\.max_literal_length', lv)
    if not cmp_:
        errors.append("[src/visitor/literal_visitor.rs] cannot extract literal length comparison")
        lo_op, hi_op = ">", "<="
    else:
        lo_op, hi_op = cmp_.group(1), cmp_.group(2)
    raw("gen_len_ok", "N -> bool",
        "fun len => andb (%s) (%s)" % (
            "N.ltb gen_min_literal_length len" if lo_op == ">" else "N.leb gen_min_literal_length len",
            "N.leb len gen_max_literal_length" if hi_op == "<=" else "N.ltb len gen_max_literal_length"),
        "value.len() %s min && value.len() %s max" % (lo_op, hi_op))
    const("gen_REQUIRE", grab(lv, r'if ident\.sym == "([^"]*)"\s*&& !call\.args\.is_empty\(\)', "require name"))
    const("gen_REGEXP", grab(lv, r'if ident\.sym == "([^"]*)"\s*&& new_exp', "RegExp name"))
    const("gen_SOURCE_MAP_URL", grab(rw, r'const SOURCE_MAP_URL: &str = "([^"]*)";', "SOURCE_MAP_URL"), "rewriter.rs")
    # which sourceMappingURL comment wins: an earlier-or-equal position is skipped (iteration order of the comment store is arbitrary)
    skip_op = grab(rw, r'last_pos\.is_some_and\(\|pos\| comment\.span\.lo (<=|<|>=|>) pos\)', "comment selection comparison")
    raw("gen_comment_skip", "N -> N -> bool",
        {"<=": "N.leb", "<": "N.ltb", ">=": "fun a b => N.leb b a", ">": "fun a b => N.ltb b a"}.get(skip_op, "fun _ _ => false"),
        "extract_source_map: `comment.span.lo %s pos` -> continue" % skip_op)
    const("gen_trailer_format", rust_unescape(grab(rw, r'format!\(\s*"(\{\}\\n//\{\}data:application/json;base64,\{\})",', "trailer format")), "print_js")
    const("gen_prologue_template", rust_unescape(grab(rw, r'let template = "((?:[^"\\]|\\.)*)";', "prologue template")), "generate_prefix_stmts")
    const("gen_prologue_entry_format", grab(rw, r'\.map\(\|csi_method\| format!\("([^"]*)", csi_method\.dst\)\)', "prologue entry format"))
    const("gen_prologue_join", grab(rw, r'\.collect::<Vec<_>>\(\)\s*\.join\("([^"]*)"\);', "prologue join"))
    const("gen_prologue_placeholder", grab(rw, r'template\.replace\("([^"]*)", &csi_methods_code\)', "prologue placeholder"))
    const("gen_cancel_format", grab(rw, r'Status::Cancelled => Err\(Error::msg\(format!\(\s*"([^"]*)",', "cancel message format"))
    const("gen_cancel_unknown", grab(rw, r'\.unwrap_or_else\(\|\| "([^"]*)"\.to_string\(\)\)', "cancel unknown reason"))
    const("gen_cancel_reason", grab(btv, r'return self\.cancel_visit\("([^"]*)"\);', "cancel reason"), "block_transform_visitor.rs")
    # defaults of to_config
    raw("gen_default_chain", "bool", grab(lw, r'chain_source_map: self\.chain_source_map\.unwrap_or\((true|false)\)', "default chain") or "false", "lib_wasm.rs to_config")
    raw("gen_default_comments", "bool", grab(lw, r'print_comments: self\.comments\.unwrap_or\((true|false)\)', "default comments") or "false")
    raw("gen_default_literals", "bool", grab(lw, r'literals: self\.literals\.unwrap_or\((true|false)\)', "default literals") or "false")
    raw("gen_default_prefix_len", "N", (grab(lw, r'\.unwrap_or_else\(\|\| rnd_string\((\d+)\)\)', "default prefix length") or "0") + "%N")
    raw("gen_default_operator", "bool", grab(lw, r'm\.operator\.unwrap_or\((true|false)\)', "default operator") or "false")
    raw("gen_default_awc", "bool", grab(lw, r'm\.allowed_without_callee\.unwrap_or\((true|false)\)', "default allowed_without_callee") or "false")
    const("gen_rnd_alphabet", grab(ut, r'let chars: Vec<char> = "([^"]*)"\.chars\(\)\.collect\(\);', "rnd_string alphabet"), "util.rs")
    # verbosity table
    tbl = re.findall(r'"([A-Z]+)" => TelemetryVerbosity::(\w+),', tel)
    fallback = grab(tel, r'_ => TelemetryVerbosity::(\w+),', "verbosity fallback")
    none_default = grab(tel, r'\}\s*TelemetryVerbosity::(\w+)\s*\}\s*\}', "verbosity default when absent")
    if not tbl:
        errors.append("cannot extract verbosity table")
    raw("gen_verbosity_table", "list (string * string)", "[" + "; ".join("(%s, %s)" % (coq_str(a), coq_str(b)) for a, b in tbl) + "]", "telemetry.rs TelemetryVerbosity::parse")
    const("gen_verbosity_fallback", fallback)
    const("gen_verbosity_absent", none_default)
    upper = "true" if re.search(r'match value\.to_uppercase\(\)\.as_str\(\)', tel) else "false"
    raw("gen_verbosity_uppercases", "bool", upper)
    # telemetry constructor table
    tt = re.findall(r'TelemetryVerbosity::(\w+) => IastTelemetry::(\w+)\(', tel)
    tdef = grab(tel, r'_ => IastTelemetry::(\w+)\(', "telemetry default kind")
    raw("gen_telemetry_table", "list (string * string)", "[" + "; ".join("(%s, %s)" % (coq_str(a), coq_str(b)) for a, b in tt) + "]", "IastTelemetry::new")
    const("gen_telemetry_default", tdef)
    # JS side
    const("gen_js_SOURCE_MAP_LINE_START", grab(smjs, r"const SOURCE_MAP_LINE_START = '([^']*)'", "SOURCE_MAP_LINE_START"), "js/source-map/index.js")
    const("gen_js_SOURCE_MAP_INLINE_LINE_START", grab(smjs, r"const SOURCE_MAP_INLINE_LINE_START = '([^']*)'", "SOURCE_MAP_INLINE_LINE_START"))
    raw("gen_js_lru_max", "N", (grab(smjs, r"new LRU\(\{ max: (\d+) \}\)", "LRU max") or "0") + "%N")
    const("gen_js_status_notmodified", grab(mainjs, r"if \(response\?\.metrics\?\.status === '([^']*)'\) \{\s*response\.content = code", "main.js notmodified status"), "main.js")
    const("gen_js_status_modified", grab(mainjs, r"if \(metrics\?\.status === '([^']*)'\) \{\s*cacheRewrittenSourceMap", "main.js modified status"))

    lines = ["(** GENERATED by gen/extract_constants.py from /repo's current sources -- do not edit. *)",
             "From Coq Require Import String List NArith Bool.", "Import ListNotations.",
             "Local Open Scope string_scope.", ""]
    for name, ty, val, comment in D:
        if comment:
            lines.append("(* %s *)" % comment.replace("*)", "* )"))
        lines.append("Definition %s : %s := %s." % (name, ty, val))
    text = "\n".join(lines) + "\n"
    out = os.path.join(HERE, "coq", "Generated.v")
    if not os.path.exists(out) or open(out, encoding="utf-8").read() != text:
        open(out, "w", encoding="utf-8").write(text)

    # ---- panic-site inventory ------------------------------------------------------------
    sites = []
    pat = re.compile(r'\.unwrap\(\)|\.expect\(|unreachable!|panic!|todo!|unimplemented!|get_unchecked|\bunsafe\b|\[[A-Za-z_][A-Za-z0-9_\.]*\]|\[\d+\]|\[0\]|\bas (?:u8|u16|u32|i8|i16|i32|usize)\b')
    for root, _dirs, files in os.walk(os.path.join(REPO, "src")):
        for f in sorted(files):
            if not f.endswith(".rs"):
                continue
            p = os.path.join(root, f)
            rel = os.path.relpath(p, REPO)
            if "/tests/" in rel or rel.endswith("lib_napi.rs") or "/verif" in rel or rel.endswith("verif_hooks.rs"):
                continue
            fn = None
            in_test = False
            # text of every function (from its `fn` line to the next one): the context in which a
            # partial operation was judged safe; an edit there re-opens the obligation
            bodies, cur = {}, None
            for line in open(p, encoding="utf-8").read().split("\n"):
                m = re.search(r'\bfn (\w+)', line.strip())
                if m and not line.strip().startswith("//"):
                    cur = m.group(1)
                if cur:
                    bodies.setdefault(cur, []).append(re.sub(r'\s+', ' ', line.strip()))
            import hashlib
            ctx_of = dict((k, hashlib.sha1("\n".join(x for x in v if x and not x.startswith("//")).encode()).hexdigest()[:12]) for k, v in bodies.items())
            for i, line in enumerate(open(p, encoding="utf-8").read().split("\n"), 1):
                s = line.strip()
                if s.startswith("//") or s.startswith("*") or s.startswith("/*"):
                    continue
                if "#[cfg(test)]" in s:
                    in_test = True
                m = re.search(r'\bfn (\w+)', s)
                if m:
                    fn = m.group(1)
                    if in_test and fn != "debug_js":
                        in_test = False
                if fn == "debug_js":
                    continue
                for mm in pat.finditer(s):
                    tok = mm.group(0)
                    if tok.startswith("[") and re.match(r'\[(derive|cfg|allow|wasm_bindgen|serde|macro_use)', tok):
                        continue
                    if s.startswith("#["):
                        continue
                    if tok.startswith("[") and re.match(r'\[[A-Z]', tok):
                        continue        # a slice type such as &[ExprOrSpread], not an index
                    sites.append({"file": rel, "fn": fn, "text": re.sub(r'\s+', ' ', s), "token": tok, "guard_ctx": ctx_of.get(fn)})
    os.makedirs(os.path.join(HERE, ".cache"), exist_ok=True)
    json.dump(sites, open(os.path.join(HERE, ".cache", "panic_sites.json"), "w"), indent=1)

    if errors:
        for e in errors:
            print("TRANSLATOR-ERROR: " + e)
        json.dump(errors, open(os.path.join(HERE, ".cache", "translator_errors.json"), "w"))
        sys.exit(3)
    else:
        p = os.path.join(HERE, ".cache", "translator_errors.json")
        if os.path.exists(p):
            os.remove(p)

if __name__ == "__main__":
    main()
