"""Core expressions of coq/Sem.v as JavaScript: string literals, identifiers, +, unary calls,
parentheses, compound assignments, method calls, template literals.  One expression per program, as the argument of the last return statement."""
import random

VARS = ["a", "b", "c", "d"]
LITS = ["'s1'", "'s2'", "'lit'", '"q"']
CALLEES = ["g", "h"]
PIECES = ["", "", "x", " - ", "a b", "1"]
METHODS = ["trim", "concat", "substring", "replace", "toUpperCase", "slice", "foo", "push", "at"]


def expr(rng, depth):
    r = rng.random()
    if depth <= 0 or r < 0.25:
        return rng.choice(VARS + LITS)
    if r < 0.60:
        l, rr = operand(rng, depth - 1, "l"), operand(rng, depth - 1, "r")
        return "%s + %s" % (l, rr)
    if r < 0.65:
        # a property read (also through / ending in `prototype`: X.prototype.m(..) is not an instrumented receiver)
        recv = expr(rng, depth - 1)
        if is_sum(recv) or has_top_optional(recv):
            recv = "(%s)" % recv
        if rng.random() < 0.35:
            return "%s[%s]" % (recv, expr(rng, depth - 1))       # a property read with a computed key
        return "%s.%s" % (recv, rng.choice(["p", "q", "length", "prototype", "p.q", "prototype.x"]))
    if r < 0.66:
        return "(%s)" % expr(rng, depth - 1)
    if r < 0.72:
        # a compound assignment to a variable or to a property (an expression: it stands in parentheses)
        target = rng.choice(["a", "b", "c.p", "d.q", "g(a).p", "(a + b).p", "'lit'.p"]) if rng.random() < 0.85 else "%s.p" % (lambda t: "(%s)" % t if has_top_optional(t) else t)(operand(rng, depth - 1, "r"))
        if rng.random() < 0.35:
            # a computed key: the object is read first, then the key (identifier / literal keys stay, others are captured --
            # and the object before them)
            target = "%s[%s]" % (rng.choice(["a", "c", "'lit'", "g(a)", "(a + b)", "d.q", "c.p"]), expr(rng, depth - 1))
        return "(%s += %s)" % (target, expr(rng, depth - 1))
    if r < 0.86:
        # a method call with one argument; a sum as receiver needs parentheses
        recv = expr(rng, depth - 1)
        if is_sum(recv) or has_top_optional(recv):
            recv = "(%s)" % recv
        opt = "?." if rng.random() < 0.3 else "."     # an optional method call: a chain of one optional link
        if opt == "?." and not (recv.replace("_", "a").isalnum() or recv.endswith(")") or recv[0] in "'\"`"):
            recv = "(%s)" % recv
        if rng.random() < 0.4:
            return "%s%s%s()" % (recv, opt, rng.choice(METHODS))
        return "%s%s%s(%s)" % (recv, opt, rng.choice(METHODS), expr(rng, depth - 1))
    if r < 0.93:
        # a template literal with one or two substitutions (a literal substitution leaves the whole template alone)
        subs = [expr(rng, depth - 1) for _ in range(rng.choice([1, 1, 2, 2, 2]))]
        out = rng.choice(PIECES)
        for sub in subs:
            out += "${%s}%s" % (sub, rng.choice(PIECES))
        return "`%s`" % out
    if rng.random() < 0.15:
        # a bare call of the method that is configured "allowed without callee"
        return "aloneMethod(%s)" % expr(rng, depth - 1)
    callee = rng.choice(CALLEES) if rng.random() < 0.75 else "%s(%s)" % (rng.choice(CALLEES), expr(rng, depth - 2))
    return "%s(%s)" % (callee, expr(rng, depth - 1))


def has_top_optional(e):
    """`?.` outside every bracket and template: the expression is an optional chain (a longer chain would extend its short circuit)."""
    d = 0
    q = None
    i = 0
    while i < len(e):
        ch = e[i]
        if q:
            if ch == q:
                q = None
        elif ch in "'\"`":
            q = ch
        elif ch in "([{":
            d += 1
        elif ch in ")]}":
            d -= 1
        elif ch == "?" and e[i:i + 2] == "?." and d == 0:
            return True
        i += 1
    return False


def is_sum(e):
    d = 0
    for i, ch in enumerate(e):
        if ch == "(":
            d += 1
        elif ch == ")":
            d -= 1
        elif ch == "+" and d == 0:
            return True
    return False


def operand(rng, depth, side):
    e = expr(rng, depth)
    if is_sum(e) and (side == "r" or rng.random() < 0.3):
        return "(%s)" % e
    return e


def program(seed, i):
    rng = random.Random("%s/core/%d" % (seed, i))
    e = expr(rng, rng.randint(1, 6))
    return "function f(a, b, c, d, g, h){ return %s; }" % e
