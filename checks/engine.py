"""Generic engine for the tree-level checks (validators of the Coq development run on the
implementation's own trees + model/implementation correspondence on the property's projection).

A check module provides:
  WHAT            comma separated driver parts (see ocaml/validate.ml)
  RULE, LEVEL
  cases(O)        -> list of cases (optional; default: regress + snippets + generated + findings)
  judge(ctx)      -> list of Failure          what the property's oracle says about ONE call
  projection(ctx) -> (ok, why)                pi_X agreement between model and implementation
  nontrivial(ctx) -> bool
ctx has: case, cin, cout, m (driver result), cfg (resolved config), met (metrics or None).
"""
import collections, json, random
import vlib, framework as F
from checks import common as C


class Failure:
    def __init__(self, what, cls=None, info=None):
        self.what, self.cls, self.info = what, cls, info or {}


class Ctx:
    def __init__(self, case, r, cin, cout, m):
        self.case, self.r, self.cin, self.cout, self.m = case, r, cin, cout, m or {}
        self.cfg = r.get("config") or {}
        self.met = C.impl_metrics(cout)
        self.ok = cout.get("outcome") == "ok"
        self.modified = bool(self.met and self.met.get("status") == "modified")
        self.has_model = m is not None and not (m or {}).get("driver_error")


def finding_cases(pid, opts=None):
    out = []
    for k in C.known_for(pid) + C.fixed_for(pid):
        w = k["witness"]
        case = {"id": "finding-" + k["id"], "config": w.get("config") or vlib.default_config(),
                "calls": [{"code": w["code"], "file": w.get("file", "t.js")}], "opts": dict(opts or {})}
        if "fs" in w:
            case["fs"] = w["fs"]
        out.append(case)
    return out


def default_cases(O, pid, n_quick=300, n_thorough=4000, cfg_fn=F.config_variants, opts=None, tag=None, **genkw):
    n = n_quick if O.tier == "quick" else n_thorough
    cases = F.regress_cases(opts=opts)
    cases += F.snippet_cases(opts=opts)
    cases += F.generated_cases(O.seed, n, tag or pid.lower(), cfg_fn=cfg_fn, opts=opts, **genkw)
    cases += finding_cases(pid, opts)
    return cases


def run(O, P, mod, pid):
    cases = mod.cases(O) if hasattr(mod, "cases") else default_cases(O, pid)
    results = C.run_cases(cases, mod.WHAT, pid.lower())
    known = C.known_for(pid)
    known_seen = collections.OrderedDict()
    outcomes = collections.Counter()
    sizes = []
    proj_breaks = 0
    for case, r, calls in results:
        for ki, (cin, cout, m) in enumerate(calls):
            O.evaluations += 1
            ctx = Ctx(case, r, cin, cout, m)
            outcomes[cout.get("outcome", "none") + ("/" + ctx.met["status"] if ctx.met else "")] += 1
            sizes.append(len(cin.get("code", "")))
            if "harness_panic" in r or "config_panic" in r:
                O.violation("harness/config panic: %s" % (r.get("harness_panic") or r.get("config_panic")),
                            {"case": C.one_call_case(case, ki)})
                continue
            try:
                nt = mod.nontrivial(ctx)
            except Exception:
                nt = False
            if nt:
                O.nontrivial.add(cin["code"])
                if len(O.samples) < 6:
                    O.samples.append(C.sample_of(case, getattr(mod, "sample_info", lambda c: None)(ctx)))
            fails = mod.judge(ctx)
            real = []
            for f in fails:
                kk = [k for k in known if f.cls and k.get("class") == f.cls]
                if kk:
                    known_seen.setdefault(kk[0]["id"], kk[0])
                else:
                    real.append(f)
            if real:
                f = real[0]
                code = cin["code"]
                if O.tier == "quick" and len(O.violations) < 2 and not case["id"].startswith("finding-") and len(code) > 80:
                    def still(text, case=case, cin=cin, f=f):
                        cc = dict(case, calls=[dict(cin, code=text)])
                        rr = C.run_cases([cc], mod.WHAT, pid.lower() + "s")[0]
                        a, b, mm = rr[2][0]
                        fs = [x for x in mod.judge(Ctx(cc, rr[1], a, b, mm))
                              if not [k for k in known if x.cls and k.get("class") == x.cls]]
                        return any(x.what.split(":")[0] == f.what.split(":")[0] for x in fs)
                    try:
                        code = F.shrink_program(code, still)
                    except Exception:
                        pass
                O.violation(f.what, {"case": dict(C.one_call_case(case, ki), calls=[dict(cin, code=code)]),
                                     "info": f.info, "all_failures": [x.what for x in real][:8],
                                     "impl_outcome": cout.get("outcome"), "impl_error": cout.get("error") or cout.get("panic")})
                continue
            if hasattr(mod, "projection"):
                pok, why = mod.projection(ctx)
                if not pok:
                    proj_breaks += 1
                    if proj_breaks <= 3:
                        O.break_("correspondence pi_%s model vs implementation: %s" % (pid, why),
                                 {"case": C.one_call_case(case, ki), "correspondence": "pi_" + pid, "detail": why})
    for k in known_seen.values():
        O.known.append("%s: %s" % (k["id"], k["what"]))
    O.coverage["cases"] = len(cases)
    O.coverage["outcome_distribution"] = dict(outcomes)
    if sizes:
        sizes.sort()
        O.coverage["input_size_bytes"] = {"min": sizes[0], "median": sizes[len(sizes) // 2], "max": sizes[-1]}
    O.coverage["correspondence_breaks"] = proj_breaks
    return results


def model_ok(ctx):
    """Basic model/implementation agreement (outcome, error text, status)."""
    return C.model_agrees_basic(ctx.cout, ctx.m if ctx.has_model or ctx.m else None)
