"""Generic engine for the tree-level checks (validators of the Coq development run on the
implementation's own trees + model/implementation correspondence on the property's projection).

A check module provides:
  WHAT            comma separated driver parts (see ocaml/validate.ml)
  RULE, LEVEL
  cases(O)        -> list of cases (optional; default: regress + snippets + generated + findings)
  judge(ctx)      -> list of Failure          what the property's oracle says about ONE call
  projection(ctx) -> (ok, why)                pi_X agreement between model and implementation
  nontrivial(ctx) -> bool
ctx has: case, cin, cout, m (driver result), cfg (resolved config), met (metrics or None).
"""
import collections, json, random
import vlib, framework as F
from checks import common as C


class Failure:
    def __init__(self, what, cls=None, info=None):
        self.what, self.cls, self.info = what, cls, info or {}


class Ctx:
    def __init__(self, case, r, cin, cout, m):
        self.case, self.r, self.cin, self.cout, self.m = case, r, cin, cout, m or {}
        self.cfg = r.get("config") or {}
        self.met = C.impl_metrics(cout)
        self.ok = cout.get("outcome") == "ok"
        self.modified = C.is_modified(cout) if not (isinstance((cout.get("result") or {}).get("content"), type(None)) and cout.get("outcome") == "ok") else bool(self.met and self.met.get("status") == "modified")
        self.has_model = m is not None and not (m or {}).get("driver_error")


def model_ctx(ctx):
    """The same judgement applied to the MODEL's output: driver fields prefixed "model:" take the place of the
    implementation's, status/count/tags come from the model.  None when the model did not produce an output."""
    m = ctx.m
    if not ctx.has_model or m.get("model") not in ("ok", "error"):
        return None
    mm = dict((k, v) for k, v in m.items() if not k.startswith("model:") and not k.startswith("out_") and k not in
              ("directives_ok", "erase_ok", "missing_sites", "roundtrip_ok"))
    for k, v in m.items():
        if k.startswith("model:"):
            mm[k[6:]] = v
    if m["model"] == "error":
        cout = {"outcome": "error", "error": m.get("model_error"), "ast_in": ctx.cout.get("ast_in")}
    else:
        tags = m.get("model_tags") or []
        verb = (ctx.cfg or {}).get("verbosity")
        cout = {"outcome": "ok", "ast_in": ctx.cout.get("ast_in"),
                "result": {"content": None, "literalsResult": None,
                           "metrics": {"status": m.get("model_status"), "instrumentedPropagation": m.get("model_count"),
                                       "file": ctx.cin.get("file"),
                                       "propagationDebug": (dict(collections.Counter(tags)) if verb == "DEBUG" else None)}}}
    c2 = Ctx(ctx.case, ctx.r, ctx.cin, cout, mm)
    c2.is_model = True
    return c2


def verdict_projection(mod, ctx, known):
    """pi_X by verdict: the property's own oracle must say the same about the model's output and the implementation's."""
    mc = model_ctx(ctx)
    if mc is None or ctx.cout.get("outcome") not in ("ok", "error") or "ast_in" not in ctx.cout:
        return True, ""
    def kinds(c):
        out = set()
        for f in mod.judge(c):
            if f.cls and [k for k in known if k.get("class") == f.cls]:
                continue
            out.add(f.what.split(":")[0][:60])
        return out
    try:
        a, b = kinds(mc), kinds(ctx)
    except Exception as e:
        return True, ""
    if a != b:
        return False, "the property's oracle says %s about the model's output and %s about the implementation's" % (sorted(a) or "nothing", sorted(b) or "nothing")
    return True, ""


def finding_cases(pid, opts=None):
    out = []
    for k in C.known_for(pid) + C.fixed_for(pid):
        w = k["witness"]
        case = {"id": "finding-" + k["id"], "config": w.get("config") or vlib.default_config(),
                "calls": [{"code": w["code"], "file": w.get("file", "t.js")}], "opts": dict(opts or {})}
        if "fs" in w:
            case["fs"] = w["fs"]
        out.append(case)
    return out


# file names somebody might treat specially (dependencies, bundles, other extensions, no directory, no name at all, odd characters)
FILE_NAMES = ["/srv/app/node_modules/pkg/index.js", "node_modules/x/y.js", "dist/bundle.min.js", "src/a.mjs", "src/a.cjs", "lib/a.ts", "a", ".hidden.js",
              "dir with space/\u00e9t\u00e9.js", "C:\\app\\index.js", "/", "", "/app/lib/..", "./rel/./x.js", "x.js/", "/app/test/a.spec.js", "file:///app/a.js", "a.json", "/app/.pnpm/x@1/node_modules/x/i.js"]


def catalogue_cases(seed, n, tag, cfg_fn=None, opts=None, reserved=None, prefix=None):
    import catalogue
    out = []
    for i, code in enumerate(catalogue.catalogue("%s/%s" % (seed, tag), n, reserved=reserved)):
        rng = random.Random("%s/%s/catcfg/%d" % (seed, tag, i))
        cfg = cfg_fn(rng) if (cfg_fn and rng.random() < 0.4) else vlib.default_config()
        if prefix:
            cfg["localVarPrefix"] = prefix
        out.append({"id": "cat-%s-%d" % (tag, i), "config": cfg, "calls": [{"code": code, "file": FILE_NAMES[i % len(FILE_NAMES)] if i % 3 == 0 else "cat.js"}], "opts": dict(opts or {})})
    return out


def default_cases(O, pid, n_quick=300, n_thorough=4000, cfg_fn=F.config_variants, opts=None, tag=None, **genkw):
    n = n_quick if O.tier == "quick" else n_thorough
    cases = F.regress_cases(opts=opts)
    cases += F.snippet_cases(opts=opts)
    cases += F.generated_cases(O.seed, n, tag or pid.lower(), cfg_fn=cfg_fn, opts=opts, **genkw)
    cases += catalogue_cases(O.seed, n if O.tier == "quick" else 2 * n, tag or pid.lower(), cfg_fn=cfg_fn, opts=opts)
    cases += wide_cases(opts)
    cases += feature_mix_cases(opts)
    cases += receiver_table_cases(opts)
    cases += lone_operation_cases(opts)
    cases += finding_cases(pid, opts)
    return cases


def lone_operation_cases(opts=None):
    """Files whose ONLY operation sits in one particular position -- instrumentable or excluded (parameter defaults of arrows and functions,
    class members, computed keys, patterns, arrow bodies that are normalised): whether the file is modified, what is counted and what is
    emitted must agree there too, and nothing else in the file can make up for it."""
    wraps = ["function f(a, b) { return (x = OP) => x; }", "function f(a, b) { return (x = OP) => { return x; }; }", "function f(a, b) { const g = ({ p = OP }) => p; return g; }",
             "function f(a, b) { return ([q = OP]) => [q]; }", "const g = (x = OP) => x;", "function f(a, b, x = OP) { return x; }", "function f(a, b) { return function (x = OP) { return x; }; }",
             "class K { p = OP; }", "class K { static p = OP; }", "class K { [OP]() {} }", "class K { m(x = OP) {} }", "function f(a, b) { return async (x = OP) => x; }",
             "function f(a, b) { return () => OP; }", "function f(a, b) { return (x) => (y = OP) => y; }", "label: { (x = OP) => x; }", "if (a) { var h = (x = OP) => x }",
             "for (const g = (x = OP) => x;;) break;", "try { } catch ({ m = OP }) { }", "function f(a, b) { return { g: (x = OP) => x }; }", "function f(a, b) { return { get [OP]() { return 1 } }; }",
             "export default (x = OP) => x", "switch (a) { case OP: break }", "function f(a, b) { return a ? (x = OP) => x : null; }", "function* g(a, b) { yield (x = OP) => x; }",
             "function f(a, b) { return tag`${(x = OP) => x}`; }", "function f(a, b) { return typeof OP; }", "const o = { m(x = OP) { return x } };", "function f(a, b) { for (const k in OP) ; }",
             "function f(a, b) { return ({ [OP]: q }) => q; }", "function f(a, b) { let { [OP]: q = 1 } = a; }", "function f(a, b) { return new.target ? 1 : (() => OP)(); }",
             "const v = OP;", "function f(a, b) { return class { static { this.q = OP } }; }", "function f(a, b) { return (x = (y = OP) => y) => x; }"]
    ops = ["a + b", "`<${a}>`", "a.trim()", "(a += b)", "a.concat(b)", "'x' + 1", "String.prototype.trim.call(a)", "a?.trim()"]
    out = []
    for wi, w in enumerate(wraps):
        for oi, op in enumerate(ops):
            out.append({"id": "lone-%d-%d" % (wi, oi), "config": vlib.default_config(telemetryVerbosity=("DEBUG", "INFORMATION", "OFF")[(wi + oi) % 3]),
                        "calls": [{"code": w.replace("OP", op) + "\n", "file": "lone.js"}], "opts": dict(opts or {})})
    return out


def receiver_table_cases(opts=None):
    """Every receiver form of the catalogue with a method that is allowed on a literal receiver and with one that is not
    (deterministic: which receiver kinds are instrumented, and with which value, must not depend on sampling)."""
    import catalogue
    out = []
    args = ["a", "'lit'", "a, b", ""]
    for ri, recv in enumerate(catalogue.RECEIVERS):
        if recv.startswith("super"):
            continue
        r = "(" + recv + ")" if recv[0].isdigit() else recv
        # the six methods the property documents for string-literal receivers (all configured here), and two that are not
        cfg = vlib.default_config()
        cfg["csiMethods"] = cfg["csiMethods"] + [{"src": "replaceAll"}, {"src": "padStart"}, {"src": "padEnd", "dst": "stringPadEnd"}, {"src": "repeat"}]
        for mi, meth in enumerate(["concat", "replace", "replaceAll", "padStart", "padEnd", "repeat", "trim", "substring"]):
            code = "function f(a,b,o,k,r,q,x,y,z,i,arr){ return %s.%s(%s); }" % (r, meth, args[(ri + mi) % len(args)])
            out.append({"id": "recv-%d-%s" % (ri, meth), "config": cfg, "calls": [{"code": code, "file": "recv.js"}], "opts": dict(opts or {})})
    return out


def feature_mix_cases(opts=None):
    """Programs that nest one instrumentable operation inside another, under every subset of the three features (a nested operation
    of a feature that is OFF stays in place inside an operand of a feature that is ON), and files whose first block only gets a
    null guard (no hook) before a block that is instrumented -- in both orders."""
    M = [{"src": "trim", "dst": "stringTrim"}, {"src": "concat", "dst": "stringConcat"}, {"src": "substring", "dst": "stringSubstring"}]
    PLUS, TPL = {"src": "plusOperator", "operator": True}, {"src": "tplOperator", "operator": True}
    subsets = {"plus": [PLUS], "tpl": [TPL], "methods": M, "plus+methods": [PLUS] + M, "tpl+methods": [TPL] + M, "plus+tpl": [PLUS, TPL], "all": [PLUS, TPL] + M}
    progs = ["{ const r = x + `<${a + b}>`; }", "{ const s = 'n'; const r = s.trim(`${a.trim()}`) + 1; }", "{ r += `${a + b}`; }", "{ r = `${x + y}`.concat(`${a.trim()}`); }",
             "{ r = a.concat(b + c, `${d + e}`); }", "{ r = `${a.concat(b + c)}` + d.trim(); }", "{ r = (a + b).trim() + `${c}`; }", "{ r = `${`${a + b}`.trim()}`; }",
             "{ r = x.substring(a + b, `${c}`.length); }", "{ o[`${a + b}`] += c.trim(); }", "{ r = f(`${a}` + b.trim()).concat(`${c + d}`); }"]
    guard_only = ["function f1(a) { 'use strict'; return a?.prototype.concat('x') }", "function f1(a) { return a?.prototype.trim() }", "const f1 = (a) => { return a?.b.prototype.substring(1) };",
                  "function f1(a) { { let q = a?.prototype.concat('x', 'y'); } }"]
    instrumented = ["function g1(a, b) { return a + b }", "function g1(a) { return a.trim() }", "function g1(a) { { return `${a}` } }"]
    out = []
    for name, methods in subsets.items():
        for j, code in enumerate(progs):
            for v in ("DEBUG", "INFORMATION"):
                out.append({"id": "mix-%s-%d-%s" % (name, j, v), "config": vlib.default_config(csiMethods=[dict(m) for m in methods], telemetryVerbosity=v),
                            "calls": [{"code": code, "file": "mix.js"}], "opts": dict(opts or {})})
    k = 0
    for g in guard_only:
        for i in instrumented:
            for order in ((g, i), (i, g), (g, g, i)):
                k += 1
                out.append({"id": "guardfirst-%d" % k, "config": vlib.default_config(), "calls": [{"code": "\n".join(order) + "\n", "file": "gf.js"}], "opts": dict(opts or {})})
    return out


def wide_cases(opts=None):
    """Blocks that need many temporaries (two-digit counters), used again by a later statement of the same block."""
    out = []
    for n in (6, 9, 11, 12, 15, 23):
        head = " + ".join("o.m%d()" % i for i in range(n))
        tail = " + ".join("o.n%d()" % i for i in range(n))
        tpl = "".join("${o.t%d()}" % i for i in range(n))
        args = ", ".join("o.a%d()" % i for i in range(n))
        progs = ["function render(o) { const head = %s; const tail = %s; return head + tail; }" % (head, tail),
                 "function render(o, s) { const a = `%s`; const b = s.concat(%s); { const c = %s; } return a + b; }" % (tpl, args, head),
                 "function render(o, s) { let r = ''; r += %s; r += s.concat(%s); return r + `%s`; }" % (head, args, tpl)]
        for j, code in enumerate(progs):
            out.append({"id": "wide-%d-%d" % (n, j), "config": vlib.default_config(), "calls": [{"code": code, "file": "wide.js"}], "opts": dict(opts or {})})
    return out


def run(O, P, mod, pid):
    cases = mod.cases(O) if hasattr(mod, "cases") else default_cases(O, pid)
    results = C.run_cases(cases, mod.WHAT, pid.lower())
    known = C.known_for(pid)
    known_seen = collections.OrderedDict()
    outcomes = collections.Counter()
    sizes = []
    proj_breaks = 0
    full = {"compared": 0, "equal": 0}
    for case, r, calls in results:
        for ki, (cin, cout, m) in enumerate(calls):
            O.evaluations += 1
            ctx = Ctx(case, r, cin, cout, m)
            outcomes[cout.get("outcome", "none") + ("/" + ("modified" if ctx.modified else "notmodified") if ctx.ok else "")] += 1
            sizes.append(len(cin.get("code", "")))
            if "harness_panic" in r or "config_panic" in r:
                O.violation("harness/config panic: %s" % (r.get("harness_panic") or r.get("config_panic")),
                            {"case": C.one_call_case(case, ki)})
                continue
            try:
                nt = mod.nontrivial(ctx)
            except Exception:
                nt = False
            if nt:
                O.nontrivial.add(cin["code"])
                if len(O.samples) < 6:
                    O.samples.append(C.sample_of(case, getattr(mod, "sample_info", lambda c: None)(ctx)))
            fails = mod.judge(ctx)
            real = []
            for f in fails:
                kk = [k for k in known if f.cls and k.get("class") == f.cls]
                if kk:
                    known_seen.setdefault(kk[0]["id"], kk[0])
                else:
                    real.append(f)
            if real:
                f = real[0]
                code = cin["code"]
                if O.tier == "quick" and len(O.violations) < 2 and not case["id"].startswith("finding-") and len(code) > 80:
                    def still(text, case=case, cin=cin, f=f):
                        cc = dict(case, calls=[dict(cin, code=text)])
                        rr = C.run_cases([cc], mod.WHAT, pid.lower() + "s")[0]
                        a, b, mm = rr[2][0]
                        fs = [x for x in mod.judge(Ctx(cc, rr[1], a, b, mm))
                              if not [k for k in known if x.cls and k.get("class") == x.cls]]
                        return any(x.what.split(":")[0] == f.what.split(":")[0] for x in fs)
                    try:
                        code = F.shrink_program(code, still)
                    except Exception:
                        pass
                O.violation(f.what, {"case": dict(C.one_call_case(case, ki), calls=[dict(cin, code=code)]),
                                     "info": f.info, "all_failures": [x.what for x in real][:8],
                                     "impl_outcome": cout.get("outcome"), "impl_error": cout.get("error") or cout.get("panic")})
                continue
            if ctx.has_model and ctx.m.get("model") == "ok" and "ast_equal" in ctx.m:
                full["compared"] += 1
                full["equal"] += 1 if ctx.m["ast_equal"] else 0
            if getattr(mod, "WHOLE_TREE", False) and ctx.has_model and ctx.m.get("model") == "ok" and ctx.m.get("ast_equal_nospan") is False:
                # for the properties that are about the whole output (C01, C02) the projection is the output tree itself (positions aside)
                proj_breaks += 1
                if proj_breaks <= 3:
                    O.break_("correspondence pi_%s model vs implementation: the implementation's output tree differs from the model's (positions aside)" % pid,
                             {"case": C.one_call_case(case, ki), "correspondence": "pi_" + pid + " (whole output tree)",
                              "diff_path": ctx.m.get("diff_path"), "model_subtree": ctx.m.get("diff_model"), "implementation_subtree": ctx.m.get("diff_impl")})
                continue
            if True:
                pok, why = mod.projection(ctx) if hasattr(mod, "projection") else verdict_projection(mod, ctx, known)
                if not pok:
                    proj_breaks += 1
                    if proj_breaks <= 3:
                        O.break_("correspondence pi_%s model vs implementation: %s" % (pid, why),
                                 {"case": C.one_call_case(case, ki), "correspondence": "pi_" + pid, "detail": why})
    for k in known_seen.values():
        O.known.append("%s: %s" % (k["id"], k["what"]))
    O.coverage["cases"] = len(cases)
    O.coverage["outcome_distribution"] = dict(outcomes)
    if sizes:
        sizes.sort()
        O.coverage["input_size_bytes"] = {"min": sizes[0], "median": sizes[len(sizes) // 2], "max": sizes[-1]}
    O.coverage["correspondence_breaks"] = proj_breaks
    O.coverage["full_output_tree_model_vs_impl"] = dict(full, note="informational: whole-tree agreement of the extracted model with the implementation; only the property's projection decides")
    return results


def model_ok(ctx):
    """Basic model/implementation agreement (outcome, error text, status)."""
    return C.model_agrees_basic(ctx.cout, ctx.m if ctx.has_model or ctx.m else None)
