"""C02 -- erasing the instrumentation gives back the input program."""
from checks import engine as E
from checks.engine import Failure

WHAT = "model,hooks,classes,erase,roundtrip"
LEVEL = "proof"
WHOLE_TREE = True     # pi: the whole output tree of the executable model (positions aside)
RULE = ("regression corpus + repository test snippets + seeded random programs (gen/jsgen.py) under pooled configurations; the "
        "extracted eraser (coq/Erase.v) is applied to the implementation's output tree and to the tree re-parsed from the printed "
        "content, and compared with the lowered input; every effectful sub-expression of the input (by kind and span) is counted in the output (exactly once: "
        "coq/Erase.v dup_effects); non-trivial = the file was modified; distinct by source text")


def cases(O):
    return E.default_cases(O, "C02", n_quick=1000, n_thorough=15000, opts={"reparse": True})


def judge(ctx):
    m = ctx.m
    if not ctx.ok:
        return []
    out = []
    if m.get("erase_ok") is False:
        out.append(Failure("erasing the instrumentation of the output tree does not give back the input: first difference at path %s: erased %s / input %s"
                           % (m.get("erase_diff_path"), (m.get("erase_diff_erased") or "")[:200], (m.get("erase_diff_input") or "")[:200])))
    if m.get("dup_effects"):
        out.append(Failure("once: %d effectful sub-expression(s) of the input (calls, assignments, updates, functions ...) are mentioned more often in the output than in the input, first at bytes %s"
                           % (len(m["dup_effects"]), m["dup_effects"][0])))
    if ctx.modified and m.get("roundtrip_ok") is False:
        out.append(Failure("the printed content does not re-parse to the tree that was printed (up to spans, parentheses, literal spelling): tree %s / re-parsed %s"
                           % ((m.get("roundtrip_diff_out") or "")[:200], (m.get("roundtrip_diff_reparsed") or "")[:200])))
    if ctx.modified and ctx.cout.get("reparse_error"):
        out.append(Failure("the printed content does not re-parse: " + ctx.cout["reparse_error"][:200]))
    return out


def nontrivial(ctx):
    return ctx.modified


def sample_info(ctx):
    return {"erase_ok": ctx.m.get("erase_ok"), "roundtrip_ok": ctx.m.get("roundtrip_ok")}


def run(O, P):
    E.run(O, P, __import__("checks.C02", fromlist=["x"]), "C02")
    O.assumptions += ["comparison is up to source spans, parentheses-as-printed and literal spelling for the re-parsed tree; x += y is read as x = x + y when + is enabled (DESIGN 5.0)",
                      "inputs that already mention _ddiast or the reserved prefix are outside the statement (NoReserved)"]
