"""C16 -- rewriting is deterministic and independent of earlier calls."""
import base64, collections, concurrent.futures, copy, json, os, random
import vlib, framework as F
from checks import engine as E, common as C

LEVEL = "proof"
RULE = ("seeded histories of 4-9 calls on one rewriter (one process, one thread): modified / not-modified / syntax-error / cancelled results, several "
        "files, files with sourceMappingURL comments (inline, external, missing) with chaining and comments on or off, repeated calls; a second rewriter "
        "with the same (and with a similar) configuration in the same process; every call's content, metrics and literal set is compared with the same "
        "call made alone in a fresh process, and the whole history is repeated in another fresh process; the histories are replayed through main.js (both "
        "rewriter classes, a stand-in native module replaying the native results and errors); non-trivial = history with at least two "
        "accepted calls of different kinds; distinct by history")


def lit_set(res):
    lr = (res or {}).get("literalsResult")
    if lr is None:
        return None
    return sorted((l["value"], sorted((x["line"], x["column"], x.get("ident") or "") for x in l["locations"])) for l in lr["literals"])


def view(call):
    if call.get("outcome") == "ok":
        r = call["result"]
        return ("ok", r["content"], json.dumps(r["metrics"], sort_keys=True), json.dumps(lit_set(r)))
    return (call.get("outcome"), call.get("error") or call.get("panic"))


def omap_url(src):
    m = {"version": 3, "sources": [src], "names": [], "mappings": ";".join(["AAAA"] + ["AACA"] * 30)}
    return "data:application/json;base64," + base64.b64encode(json.dumps(m).encode()).decode()


def make_history(seed, i):
    import jsgen, catalogue
    rng = random.Random("%s/c16/%d" % (seed, i))
    cfg = F.config_variants(rng)
    cfg["chainSourceMap"] = rng.random() < 0.7
    cfg["comments"] = rng.random() < 0.5
    cfg["literals"] = True
    calls = []
    fs = {}
    for k in range(rng.randrange(4, 10)):
        kind = rng.choice(["modified", "modified", "notmodified", "syntax", "cancelled", "mapped-notmodified", "mapped-modified", "repeat", "mapped-external", "ext-same-url", "ext-same-url", "two-refs",
                           "bare-call", "bare-call", "member-call", "member-call", "many-literals"])
        file = rng.choice(["dir/a.js", "dir/b.js", "c.js", "/abs/d.js"])
        if kind == "repeat" and calls:
            calls.append(dict(rng.choice(calls))); continue
        if kind == "modified":
            code = (jsgen.program("%s/c16" % seed, i * 16 + k) if rng.random() < 0.5 else catalogue.program("%s/c16" % seed, i * 16 + k)) + "\nfunction zz(a,b){ return a + b; }\n"
        elif kind in ("bare-call", "member-call"):
            # the same method name looked up in different ways by successive calls on one rewriter (bare call, member call,
            # literal receiver, prototype call): what one call finds must not depend on what an earlier one asked
            nm = rng.choice([m["src"] for m in cfg["csiMethods"] if not m.get("operator")] or ["trim"])
            code = ("function bc%d(a) { return %s(a); }\n" % (k, nm) if kind == "bare-call" else
                    "function mc%d(a, b) { return %s; }\n" % (k, rng.choice(["a.%s(b)", "'lit'.%s(b)", "String.prototype.%s.call(a, b)", "a?.%s(b)"]) % nm))
        elif kind == "many-literals":
            # one literal at many places, many literals at one place each: the report is a set, whatever order or capacity the collector has
            code = "".join("log%d('literal_literal', 'other_literal_%d');\n" % (j, j % 7) for j in range(rng.choice([12, 40, 130]))) + "function ml%d(a, b) { return a + 'literal_literal'; }\n" % k
            calls.append({"code": code, "file": file})
            calls.append({"code": code, "file": file})
            continue
        elif kind == "notmodified":
            code = "const k%d = 'literal_number_%d'; let t = [1,2,3].map(x => x * 2);\n" % (k, k)
        elif kind == "syntax":
            code = "function ( { return a + ;\n//# sourceMappingURL=%s\n" % omap_url("syntax-%d.ts" % k)
        elif kind == "cancelled":
            code = "function f(a,b){ const __datadog_%s_0 = 1; return a + b; }\n//# sourceMappingURL=%s\n" % (cfg["localVarPrefix"], omap_url("cancelled-%d.ts" % k))
        elif kind == "mapped-notmodified":
            code = "const v%d = [1,2].join('');\n//# sourceMappingURL=%s\n" % (k, omap_url("first-original-%d.ts" % k))
        elif kind == "mapped-modified":
            code = "function g%d(a,b){ return a + b.trim(); }\n//# sourceMappingURL=%s\n" % (k, omap_url("mapped-%d.ts" % k))
        elif kind == "two-refs":
            # two references on different tokens, the later one unusable: which one wins must not depend on the iteration order
            # of the comment store (a fresh random order on every call) -- the call is made several times
            code = ("function w%d(a,b){ return a + b; } //# sourceMappingURL=%s\nconst z%d = [1].join('');\n//# sourceMappingURL=%s\n"
                    % (k, omap_url("two-refs-first-%d.ts" % k), k, rng.choice(["missing-%d.map" % k, "data:application/json;base64,@@@", "bad%d.map" % k])))
            fs[os.path.join(os.path.dirname(file), "bad%d.map" % k)] = {"data": "{ not json"}
            for _ in range(3):
                calls.append({"code": code, "file": file})
            continue
        elif kind == "ext-same-url":
            # files of different folders whose comment is the same relative URL: each folder has its own map
            code = "function s%d(a,b){ return a + b.trim(); }\n//# sourceMappingURL=shared.js.map\n" % k
            for folder in ("dir", "", "/abs"):
                fs[os.path.join(folder, "shared.js.map")] = {"data": json.dumps({"version": 3, "sources": ["orig-of-%s.ts" % (folder.strip("/") or "top")], "names": [],
                                                                                "mappings": "AAAA;AACA" if folder else "AAEA;AAEA"})}
        else:
            code = "function h%d(a,b){ return `${a}${b}`; }\n//# sourceMappingURL=ext%d.map\n" % (k, k)
            fs[os.path.join(os.path.dirname(file), "ext%d.map" % k)] = {"data": json.dumps({"version": 3, "sources": ["ext-%d.ts" % k], "names": [], "mappings": "AAAA;AACA"})}
        calls.append({"code": code, "file": file})
    return {"id": "c16-%d" % i, "config": cfg, "fs": fs, "calls": calls, "opts": {"ast": False}}


def run(O, P):
    n = 40 if O.tier == "quick" else 1200
    hist = [make_history(O.seed, i) for i in range(n)]
    # rewriters that share a process: the same configuration again, and a similar one (same sources, other replacement names)
    batch = []
    for h in hist:
        batch.append(h)
        twin = copy.deepcopy(h); twin["id"] += "~same"
        batch.append(twin)
        sim = copy.deepcopy(h); sim["id"] += "~similar"
        for m in sim["config"]["csiMethods"]:
            m["dst"] = "alt_" + (m.get("dst") or m["src"])
        batch.append(sim)
    vlib.build_harness()
    first = vlib.run_harness(batch, "c16a")            # one process, one thread, everything in sequence
    second = vlib.run_harness(list(reversed(batch)), "c16b")[::-1]    # another process, other order of rewriters
    singles = []
    for h in batch:
        for k, call in enumerate(h["calls"]):
            singles.append((h["id"], k, dict(h, id="%s#%d" % (h["id"], k), calls=[call])))
    with concurrent.futures.ThreadPoolExecutor(vlib.NJOBS) as ex:
        alone = list(ex.map(lambda t: vlib.run_harness([t[2]], "c16s-%s-%d" % (t[0].replace("~", "_"), t[1]))[0], singles))
    alone_by = {(hid, k): r for (hid, k, _), r in zip(singles, alone)}
    kinds = collections.Counter()
    for h, r1, r2 in zip(batch, first, second):
        O.evaluations += 1
        bad = None
        seen_kinds = set()
        for k, call in enumerate(h["calls"]):
            a = view(r1["calls"][k]); b = view(r2["calls"][k]); s = view(alone_by[(h["id"], k)]["calls"][0])
            seen_kinds.add(a[0] + ("/" + json.loads(a[2])["status"] if a[0] == "ok" else ""))
            if a != s:
                which = next((i for i, (x, y) in enumerate(zip(a, s)) if x != y), 0)
                bad = ("call %d of the history (%s) differs from the same call made alone in a fresh process (%s differs)" % (k, call["file"], ["outcome", "content", "metrics", "literals"][min(which, 3)]),
                       {"in_history": [x[:400] if isinstance(x, str) else x for x in a], "alone": [x[:400] if isinstance(x, str) else x for x in s]})
                break
            if a != b:
                bad = ("call %d of the history gives different results in two processes" % k, {})
                break
        if bad:
            O.violation(bad[0], dict({"case": h, "failing_call": k}, **bad[1]))
            continue
        for x in seen_kinds:
            kinds[x] += 1
        if len(seen_kinds) >= 2:
            O.nontrivial.add(h["id"])
            if len(O.samples) < 4:
                O.samples.append({"id": h["id"], "calls": [(c["file"], c["code"][:50]) for c in h["calls"]][:6], "kinds": sorted(seen_kinds)})
    # the same histories through the package's wrapper (main.js, both rewriter classes, one instance each for the whole batch):
    # a stand-in native module replays the native results -- errors included --, and every call must hand back what the same
    # call made alone hands back, whatever was processed (or refused) before it
    # ... and histories in which the text handed in is itself the output of an earlier call (a file rewritten twice by mistake,
    # a bundler feeding the result back): refused every time, whatever the package remembers about texts or files
    fed = []
    for h, r1 in zip(batch, first):
        for k, call in enumerate(h["calls"]):
            rr = r1["calls"][k]
            if rr.get("outcome") == "ok" and (rr["result"].get("content") or "") and len(fed) < 12:
                out_text = rr["result"]["content"]
                fed.append(dict(h, id=h["id"] + "~fedback%d" % k, calls=[call, {"code": out_text, "file": call["file"]}, {"code": out_text, "file": call["file"]},
                                                                          {"code": out_text, "file": "other-" + os.path.basename(call["file"])}, {"code": out_text, "file": call["file"]}]))
                break
    fed_native = vlib.run_harness(fed, "c16f") if fed else []
    jobs = []
    for h, r1 in list(zip(batch[:120], first[:120])) + list(zip(fed, fed_native)):
        for which in (True, False):
            steps = []
            for k, call in enumerate(h["calls"]):
                nat = r1["calls"][k]
                st = {"op": "rewrite", "file": "/pkg/" + call["file"].lstrip("/"), "code": call["code"], "cache": which}
                if nat.get("outcome") == "ok":
                    st["response"] = nat["result"]
                else:
                    st["error"] = nat.get("error") or nat.get("panic") or "error"
                steps.append(st)
            jobs.append({"id": "%s/%s" % (h["id"], "cache" if which else "noncache"), "steps": steps, "_h": h})
    res = vlib.run_node("pkg_history.js", [{"id": j["id"], "steps": j["steps"]} for j in jobs]) if jobs else []
    if res is None or len(res) != len(jobs):
        O.break_("package wrapper driver failed", {"correspondence": "tools/pkg_history.js"})
        res = []
    pk = collections.Counter()
    for j, rr in zip(jobs, res):
        O.evaluations += 1
        for k, (st, got) in enumerate(zip(j["steps"], rr["results"])):
            got = got or {}
            if "error" in st:
                ok = "threw" in got
                pk["refused"] += 1
                what = "a call the native rewriter refuses does not raise through the package API"
            else:
                stt = (st["response"].get("metrics") or {}).get("status")
                want = st["code"] if stt == "notmodified" else st["response"]["content"]
                ok = got.get("content") == want and got.get("status") == stt
                pk[stt or "?"] += 1
                what = ("call %d of the history through the package API (%s) does not hand back what the same call hands back alone: status %r instead of %r%s"
                        % (k, j["id"].split("/")[-1], got.get("status"), stt, "" if got.get("content") == want else ", other content"))
            if not ok:
                O.violation(what, {"case": dict(j["_h"], calls=j["_h"]["calls"][:k + 1]), "failing_call": k, "returned": {kk: (vv[:300] if isinstance(vv, str) else vv) for kk, vv in got.items()}})
                break
    O.coverage["package_level_calls"] = dict(pk)
    O.coverage["histories"] = len(batch)
    O.coverage["calls"] = len(singles)
    O.coverage["call_kinds"] = dict(kinds)
    O.assumptions += ["'fresh rewriter, same configuration' is read with the prefix given (a random prefix is part of the resolved configuration, C05)",
                      "literals are compared as sets (their order follows a hash map), contents and metrics exactly",
                      "process-level state that could leak (thread-locals, statics, the swc globals) is exercised by running the history in one thread of one process"]
