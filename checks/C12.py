"""C12 -- unmodified files are reported as such and handed back byte for byte."""
import base64, json, os, subprocess
import vlib, framework as F
from checks import engine as E, common as C
from checks.engine import Failure

WHAT = "model,hooks,classes"
LEVEL = "proof"
RULE = ("regression corpus + repository test snippets + seeded random programs under pooled configurations (a third with few or no methods so "
        "that many files stay unmodified), inputs with BOM / CRLF / non-ASCII text; status, content, hook sites (coq/HookSites.v, extracted, on "
        "the implementation's output tree), prologue and trailer are cross-checked, and the package wrapper (main.js, through a stand-in native "
        "module fed with the implementation's real results) must hand back the caller's text; non-trivial = both statuses count, distinct by source text")

PRO_START = "if (typeof _ddiast === 'undefined')"
TRAILER = "\n//# sourceMappingURL=data:application/json;base64,"


def few_methods(rng):
    cfg = F.config_variants(rng)
    r = rng.random()
    if r < 0.25:
        cfg["csiMethods"] = []
    elif r < 0.5:
        cfg["csiMethods"] = [m for m in cfg["csiMethods"] if rng.random() < 0.25]
    return cfg


def cases(O):
    n = 700 if O.tier == "quick" else 12000
    cs = E.default_cases(O, "C12", n_quick=n, n_thorough=n, cfg_fn=few_methods)
    odd = ["﻿const a = 1;\r\nconst b = 'x';\r\n", "// café ☃\nconst s = 'été';\n", "﻿function f(a,b){\r\n return a + b;\r\n}\r\n",
           "", " ", "\n\n", "/* only a comment */", "#!/usr/bin/env node\nconsole.log(1)\n", "const t = `a\r\nb`;", "'use strict'",
           "function f(a){ return a?.prototype.trim(); }", "const f = (a) => a;", "x = a?.b?.c", "class A { static { } }"]
    for i, code in enumerate(odd):
        cs.append({"id": "c12odd-%d" % i, "config": vlib.default_config(), "calls": [{"code": code, "file": "odd.js"}], "opts": {}})
    # every way a sourceMappingURL reference can be present, usable or not, with chaining and comments on or off:
    # a modified result carries its prologue, hook calls and ONE trailer whatever happens to the original map
    import base64, json as _json
    good = "data:application/json;base64," + base64.b64encode(_json.dumps({"version": 3, "sources": ["o.ts"], "names": [], "mappings": "AAAA;AACA"}).encode()).decode()
    refs = ["nowhere.map", "locked.map", "data:application/json;base64,@@@", "bad.map", "idx.map", "", good, "ok.map", "/abs/ok.map", "dir/../ok.map"]
    fs = {"bad.map": {"data": "{ not json"}, "locked.map": {"err": "EACCES"}, "ok.map": {"data": _json.dumps({"version": 3, "sources": ["o.ts"], "names": [], "mappings": "AAAA"})},
          "/abs/ok.map": {"data": _json.dumps({"version": 3, "sources": ["o.ts"], "names": [], "mappings": "AAAA"})},
          "idx.map": {"data": _json.dumps({"version": 3, "sections": [{"offset": {"line": 0, "column": 0}, "map": {"version": 3, "sources": ["o.ts"], "names": [], "mappings": "AAAA"}}]})}}
    progs = ["function f(a,b){ return a + b; }", "const k = [1,2].join('');", "function g(s){ return s.trim(); }\nconst z = 1;"]
    k = 0
    for ref in refs:
        for prog in progs:
            for chain in (True, False):
                for comments in (True, False):
                    k += 1
                    cs.append({"id": "c12ref-%d" % k, "config": vlib.default_config(chainSourceMap=chain, comments=comments), "fs": fs,
                               "calls": [{"code": prog + "\n//# sourceMappingURL=" + ref + "\n", "file": "r.js"}], "opts": {}})
    cs += E.feature_mix_cases()
    return cs


def judge(ctx):
    if not ctx.ok:
        return []
    out = []
    res, met, m = ctx.cout["result"], ctx.met, ctx.m
    content = res["content"]
    if met is None:
        return [Failure("metrics: no status is reported for an accepted result")]
    if content is None:      # the model's side: no printed text, the tree-level part only
        hooks = m.get("out_hook_count", 0) - m.get("in_hook_count", 0) - (m.get("prologue_hook_count", 0) if met["status"] == "modified" else 0)
        if met["status"] == "notmodified" and hooks > 0:
            return [Failure("status notmodified but hook calls were emitted into the tree")]
        if met["status"] == "modified" and hooks < 1:
            return [Failure("status modified but no hook call was emitted")]
        return []
    hooks = None
    if "out_hook_count" in m:
        hooks = m["out_hook_count"] - m.get("in_hook_count", 0) - (m.get("prologue_hook_count", 0) if ctx.modified else 0)
    if met["status"] == "notmodified":
        if content != "":
            out.append(Failure("status notmodified but the result carries %d bytes of content" % len(content)))
        if hooks is not None and hooks > 0:
            out.append(Failure("status notmodified but %d hook call(s) were emitted into the tree" % hooks))
        if met["instrumentedPropagation"] != 0:
            out.append(Failure("status notmodified but instrumentedPropagation=%d" % met["instrumentedPropagation"]))
    elif met["status"] == "modified":
        if hooks is not None and hooks < 1:
            out.append(Failure("status modified but no hook call was emitted"))
        body = content.split(TRAILER)
        if len(body) != 2:
            out.append(Failure("status modified but the content has %d inline source-map trailers" % (len(body) - 1)))
        else:
            try:
                mp = json.loads(base64.b64decode(body[1].strip(), validate=True))
                if mp.get("version") != 3:
                    out.append(Failure("trailer does not decode to a version-3 map"))
            except Exception as e:
                out.append(Failure("trailer does not decode: %s" % e))
            if "\n" in body[1].strip():
                out.append(Failure("text after the trailer line"))
        if PRO_START not in content:
            out.append(Failure("status modified but the prologue is missing"))
        if "_ddiast." not in content:
            out.append(Failure("status modified but the printed content has no hook call"))
    else:
        out.append(Failure("status string %r" % met["status"]))
    return out


def nontrivial(ctx):
    return ctx.ok


def sample_info(ctx):
    return {"status": ctx.met and ctx.met["status"], "content_bytes": len(ctx.cout["result"]["content"]) if ctx.ok else None}


def run(O, P):
    results = E.run(O, P, __import__("checks.C12", fromlist=["x"]), "C12")
    # package level: NonCacheRewriter / CacheRewriter hand back the caller's text for notmodified results
    jobs = []
    for case, r, calls in results:
        for cin, cout, m in calls:
            if cout.get("outcome") == "ok":
                jobs.append({"id": case["id"], "code": cin["code"], "file": cin["file"], "response": cout["result"]})
    # the hand-written inputs (BOM, CRLF, empty, shebang ...) first, then the not-modified results, then the rest, up to the tier's budget
    def prio(j):
        met = j["response"].get("metrics") or {}
        if j["id"].startswith(("c12odd", "c12ref")):
            return 0
        if met.get("status") == "modified" and not met.get("instrumentedPropagation"):
            return 1          # modified, but nothing is counted (telemetry off): the status alone says what to hand back
        return 2 if met.get("status") == "notmodified" else 3
    jobs.sort(key=prio)
    jobs = jobs[:900 if O.tier == "quick" else 18000]
    if jobs:
        res = vlib.run_node("pkg_wrapper.js", jobs)
        if res is None or len(res) != len(jobs):
            O.break_("package wrapper driver failed", {"correspondence": "main.js wrapper"})
        else:
            nm = 0
            for j, rr in zip(jobs, res):
                O.evaluations += 1
                st = (j["response"].get("metrics") or {}).get("status")
                if st is None:
                    continue      # already reported by the tree-level part
                for which in ("cache", "noncache"):
                    got = rr[which]
                    if st == "notmodified":
                        nm += 1
                        if got["content"] != j["code"]:
                            O.violation("package API (%s rewriter) does not return the caller's source byte for byte for a notmodified result" % which,
                                        {"case": {"id": j["id"], "config": None, "calls": [{"code": j["code"], "file": j["file"]}]}, "returned": got["content"][:300]})
                    else:
                        if got["content"] != j["response"]["content"]:
                            O.violation("package API (%s rewriter) alters the content of a modified result" % which,
                                        {"case": {"id": j["id"], "config": None, "calls": [{"code": j["code"], "file": j["file"]}]}})
                    if got["status"] != st:
                        O.violation("package API changes the reported status", {"case": {"id": j["id"], "calls": [{"code": j["code"], "file": j["file"]}]}})
            O.coverage["package_level_calls"] = len(jobs) * 2
            O.coverage["package_level_notmodified"] = nm
    O.assumptions += ["hook sites are recognised syntactically (_ddiast.<name>(..) calls); inputs that already mention _ddiast are discounted",
                      "the wasm glue (serde_wasm_bindgen conversion of the result) is not exercised: main.js runs against a stand-in native module that replays the native results"]
