"""C15 -- reported propagation metrics equal the instrumentation actually emitted."""
import collections, random
import vlib, framework as F
from checks import engine as E, common as C
from checks.engine import Failure

WHAT = "model,hooks,classes,wf"
RULE = ("regression corpus + the repository's own test snippets (also under verbosity OFF / INFORMATION / MANDATORY) + the shape catalogue + seeded random programs "
        "(gen/jsgen.py) under configurations drawn from a pool (method subsets/renamings, every verbosity spelling); the extracted "
        "hook-site counter / tagger (coq/HookSites.v) runs on the implementation's own output tree; a case is non-trivial when the "
        "implementation accepted it and emitted at least one hook call; distinct by source text")
LEVEL = "proof"


def cases(O):
    n = 700 if O.tier == "quick" else 12000
    cs = F.regress_cases() + F.snippet_cases()
    for v in ("OFF", "INFORMATION", "MANDATORY"):
        cs += [dict(c, id=c["id"] + "-" + v, config=vlib.default_config(telemetryVerbosity=v)) for c in F.snippet_cases()[:40]]
    cs += F.generated_cases(O.seed, n, "c15", cfg_fn=F.config_variants)
    # the shape catalogue: every operation form in every context (a sub-expression that the rewriter copies would be counted once and emitted twice)
    cs += E.catalogue_cases(O.seed, n, "c15", cfg_fn=lambda rng: F.config_variants(rng) if rng.random() < 0.3 else vlib.default_config(telemetryVerbosity=rng.choice(["DEBUG", "INFORMATION"])))
    # orders matter: an instrumented operation followed / preceded by inspected-but-untouched ones, nested blocks
    mixes = ["{ const a = b.trim(); const c = 'x' + 'y'; }", "{ const c = 'x' + 'y'; const a = b.trim(); }",
             "function f(a){ const x = a + b; { const y = 1 + 2; const z = `q${'w'}`; } return 'a' + 'b'; }",
             "function f(a){ { const y = 1 + 2; } const x = a + b; { const z = 'p' + 'q'; } }",
             "function f(a){ s += 'lit'; const t = `x${a}`; u = 'a' + 'b' + 'c'; }",
             "function f(a){ return a?.trim(); } function g(){ return 'x' + 'y'; }",
             "function f(a){ return x.foo(1 + 2, a.substring(1)); }"]
    for i, code in enumerate(mixes):
        for v in ("DEBUG", "INFORMATION", "OFF"):
            cs.append({"id": "c15mix-%d-%s" % (i, v), "config": vlib.default_config(telemetryVerbosity=v),
                       "calls": [{"code": code, "file": "mix.js"}], "opts": {}})
    cs += E.feature_mix_cases() + E.wide_cases() + E.receiver_table_cases()
    cs += E.finding_cases("C15")
    return cs


def judge(ctx):
    """Uses the extracted specification functions on the output tree."""
    cin, m, cfg, met = ctx.cin, ctx.m, ctx.cfg, ctx.met
    if met is None or "out_hook_count" not in m:
        return []
    modified = met["status"] == "modified"
    hooks = m["out_hook_count"] - m.get("in_hook_count", 0) - (m.get("prologue_hook_count", 0) if modified else 0)
    verb = cfg.get("verbosity")
    info = {"hooks": hooks, "count": met["instrumentedPropagation"], "verbosity": verb}
    ctx.info = info
    if met["status"] not in ("modified", "notmodified"):
        return [Failure("status string: %r" % met["status"], info=info)]
    if met["file"] != cin["file"]:
        return [Failure("file name: metrics.file %r differs from the call's file %r" % (met["file"], cin["file"]), info=info)]
    if not modified:
        hooks = 0     # nothing is emitted for an unmodified file
    expected = 0 if verb == "OFF" else hooks
    out = []
    if met["instrumentedPropagation"] != expected:
        out.append(Failure("count: instrumentedPropagation=%d but %d hook call sites were emitted (verbosity %s)" % (met["instrumentedPropagation"], hooks, verb), info=info))
    if verb == "DEBUG":
        tags = collections.Counter(m.get("out_hook_tags", [])) - collections.Counter(m.get("in_hook_tags", []))
        if not modified:
            tags = collections.Counter()
        if dict(tags) != (met.get("propagationDebug") or {}):
            out.append(Failure("tags: propagationDebug=%s but the emitted hook sites are tagged %s" % (met.get("propagationDebug"), dict(tags)), info=info))
    else:
        if met.get("propagationDebug") is not None:
            out.append(Failure("tags: propagationDebug present with verbosity %s" % verb, info=info))
    # the measure of the global theorem (C15_count_equals_references_emitted) on the implementation's own trees:
    # references to the hook namespace in the output - those of the input - those of the prologue = the reported count
    if "out_ns" in m and verb != "OFF" and not out:
        refs = (m["out_ns"] - m.get("in_ns", 0) - m.get("prologue_ns", 0)) if modified else 0
        info["namespace_references"] = refs
        if refs != met["instrumentedPropagation"]:
            out.append(Failure("count: instrumentedPropagation=%d but %d references to the hook namespace were emitted (verbosity %s)" % (met["instrumentedPropagation"], refs, verb), info=info))
    return out


HYP = collections.Counter()


def projection(ctx):
    """pi_C15 by verdict, plus: the hypotheses of the global theorem are evaluated on the parser's tree."""
    m = ctx.m
    if "in_wf" in m and not getattr(ctx, "is_model", False):
        HYP["inputs"] += 1
        if m.get("in_optchain"):
            HYP["with_optional_chain (outside the theorem's fragment)"] += 1
        elif not m["in_wf"]:
            HYP["wf_all_false"] += 1
            return False, "wf_all (hypothesis of C15_count_equals_references_emitted) is false on a tree produced by the parser"
        elif m.get("in_ns", 0) != 0:
            HYP["input_mentions_namespace (outside the theorem's fragment)"] += 1
        else:
            HYP["hypotheses_hold"] += 1
    return E.verdict_projection(__import__("checks.C15", fromlist=["x"]), ctx, C.known_for("C15"))


def nontrivial(ctx):
    return ctx.modified and ctx.m.get("out_hook_count", 0) > 0


def sample_info(ctx):
    return getattr(ctx, "info", None)


def run(O, P):
    HYP.clear()
    E.run(O, P, __import__("checks.C15", fromlist=["x"]), "C15")
    O.coverage["global_theorem_hypotheses_on_input_trees"] = dict(HYP)
    O.assumptions += ["hook sites of an output are recognised syntactically (call whose callee is _ddiast.<name>); inputs that already mention _ddiast are discounted by subtracting the input's own sites",
                      "swc's serde serialization of its AST is faithful (harness dump)"]
