"""C15 -- reported propagation metrics equal the instrumentation actually emitted."""
import collections, random
import vlib, framework as F
from checks import common as C

RULE = ("regression corpus + the repository's own test snippets + seeded random programs (gen/jsgen.py) under "
        "configurations drawn from a pool (method subsets/renamings, every verbosity spelling); a case is "
        "non-trivial when the implementation accepted it and emitted at least one hook call; distinct by source text")
LEVEL = "proof"


def oracle(cin, cout, m, cfg):
    """Returns (ok, what, info). Uses the extracted specification functions on the implementation's trees."""
    met = C.impl_metrics(cout)
    if met is None or m is None or "out_hook_count" not in m:
        return True, "", {}
    modified = met["status"] == "modified"
    hooks = m["out_hook_count"] - m.get("in_hook_count", 0) - (m.get("prologue_hook_count", 0) if modified else 0)
    verb = cfg["verbosity"]
    info = {"hooks": hooks, "count": met["instrumentedPropagation"], "verbosity": verb}
    if met["status"] not in ("modified", "notmodified"):
        return False, "status string %r" % met["status"], info
    if met["file"] != cin["file"]:
        return False, "metrics.file %r differs from the call's file %r" % (met["file"], cin["file"]), info
    if not modified:
        hooks = 0     # nothing is emitted for an unmodified file
    expected = 0 if verb == "OFF" else hooks
    if met["instrumentedPropagation"] != expected:
        return False, "instrumentedPropagation=%d but %d hook call sites were emitted (verbosity %s)" % (met["instrumentedPropagation"], hooks, verb), info
    if verb == "DEBUG":
        tags = collections.Counter(m.get("out_hook_tags", [])) - collections.Counter(m.get("in_hook_tags", []))
        if not modified:
            tags = collections.Counter()
        if dict(tags) != (met.get("propagationDebug") or {}):
            return False, "propagationDebug=%s but the emitted hook sites are tagged %s" % (met.get("propagationDebug"), dict(tags)), info
    else:
        if met.get("propagationDebug") is not None:
            return False, "propagationDebug present with verbosity %s" % verb, info
    return True, "", info


def projection_agrees(cout, m):
    ok, why = C.model_agrees_basic(cout, m)
    if not ok:
        return ok, why
    met = C.impl_metrics(cout)
    if met is None:
        return True, ""
    if met["instrumentedPropagation"] != m.get("model_count"):
        return False, "count impl=%s model=%s" % (met["instrumentedPropagation"], m.get("model_count"))
    if met.get("propagationDebug") is not None:
        if dict(collections.Counter(m.get("model_tags", []))) != met["propagationDebug"]:
            return False, "tags impl=%s model=%s" % (met["propagationDebug"], m.get("model_tags"))
    return True, ""


def run(O, P):
    n = 300 if O.tier == "quick" else 4000
    cases = F.regress_cases()
    cases += F.snippet_cases()
    for v in ("OFF", "INFORMATION", "MANDATORY"):
        cases += [dict(c, id=c["id"] + "-" + v, config=vlib.default_config(telemetryVerbosity=v)) for c in F.snippet_cases()[:40]]
    cases += F.generated_cases(O.seed, n, "c15", cfg_fn=F.config_variants)
    known = C.known_for("C15")
    fixed = C.fixed_for("C15")
    for k in known + fixed:
        cases.append({"id": "finding-" + k["id"], "config": k["witness"].get("config") or vlib.default_config(),
                      "calls": [{"code": k["witness"]["code"], "file": k["witness"].get("file", "t.js")}], "opts": {}})
    results = C.run_cases(cases, "model,hooks,classes", "c15")
    verbs = collections.Counter()
    known_seen = set()
    for case, r, calls in results:
        for cin, cout, m in calls:
            O.evaluations += 1
            cfg = r.get("config") or {}
            verbs[cfg.get("verbosity")] += 1
            ok, what, info = oracle(cin, cout, m, cfg)
            if info.get("hooks", 0) > 0 and cout.get("outcome") == "ok":
                O.nontrivial.add(cin["code"])
                if len(O.samples) < 6:
                    O.samples.append(C.sample_of(case, info))
            is_finding_case = case["id"].startswith("finding-")
            if not ok:
                classes = (m or {}).get("classes", [])
                kk = [k for k in known if k["class"] in classes and "hook call sites were emitted" in what
                      and info["count"] < info["hooks"]]
                if kk:
                    known_seen.add(kk[0]["id"])
                else:
                    code = cin["code"]
                    if not is_finding_case and O.tier == "quick" and len(O.violations) < 2:
                        def still(text):
                            cc = dict(case, calls=[dict(cin, code=text)])
                            rr = C.run_cases([cc], "model,hooks,classes", "c15s")[0]
                            a, b, mm = rr[2][0]
                            return not oracle(a, b, mm, rr[1].get("config") or {})[0]
                        code = F.shrink_program(code, still)
                    O.violation(what, {"case": dict(case, calls=[dict(cin, code=code)]), "impl_metrics": C.impl_metrics(cout), "info": info})
                continue
            pok, why = projection_agrees(cout, m)
            if not pok:
                O.break_("correspondence pi_C15 (status, count, tags) model vs implementation: " + why,
                         {"case": C.one_call_case(case), "correspondence": "pi_C15", "detail": why})
    for k in known:
        if k["id"] in known_seen:
            O.known.append("%s: %s" % (k["id"], k["what"]))
    O.coverage["verbosity_distribution"] = dict((str(k), v) for k, v in verbs.items())
    O.coverage["cases"] = len(cases)
    O.assumptions += ["hook sites of an output are recognised syntactically (call whose callee is _ddiast.<name>); inputs that already mention _ddiast are discounted by subtracting the input's own sites",
                      "swc's serde serialization of its AST is faithful (harness dump)"]
