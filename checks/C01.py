"""C01 -- rewritten code behaves exactly like the input when hooks are pass-through."""
import collections, json, os, random, re
import vlib, framework as F
from checks import engine as E, common as C
from checks.engine import Failure

WHAT = "model,hooks,classes,erase,order"
LEVEL = "proof"
WHOLE_TREE = True     # pi: the whole output tree of the executable model (positions aside)
RULE = ("(1) tree level: regression corpus + snippets + random programs + shape catalogue: the extracted validators (eraser, evaluation-order checker, "
        "hygiene) must accept the implementation's output tree; (2) execution level: seeded executable programs (gen/execgen.py: every operation form x "
        "operand shape x statement context, strict and sloppy) whose free variables are observable proxies -- every get / set / has / delete / call / "
        "construct / coercion / iteration is logged, a mutator object reassigns variables on every interaction, getters and calls that throw -- are run "
        "before and after rewriting in fresh V8 contexts with the prologue's pass-through hooks; outcome and event log must be equal (coercion order "
        "inside templates exempt); non-trivial = modified program whose input run produced at least 3 events; distinct by source text")


def cases_tree(O):
    return E.default_cases(O, "C01", n_quick=700, n_thorough=12000)


def cases(O):
    return cases_tree(O)


def judge(ctx):
    if not ctx.ok:
        return []
    m = ctx.m
    out = []
    if m.get("erase_ok") is False:
        out.append(Failure("erase: the output tree is not the input plus instrumentation"))
    for issue in sorted(set(m.get("out_order") or [])):
        cls = "call-apply-nonstatic-path" if issue == "this-before-nonstatic-path" else None
        out.append(Failure("order: %s" % issue, cls=cls))
    return out


def nontrivial(ctx):
    return ctx.modified


def core_tie(O):
    """Tie of the semantic theorem's rewriting function (coq/Sem.v rw) to the code: on seeded expressions of the core
    language, the extracted [sem_tie] abstracts the input expression, applies rw, and compares with the abstraction of what
    the implementation (and the executable model) produced."""
    import coregen
    n = 1500 if O.tier == "quick" else 30000
    cs = []
    for i in range(n):
        rng = random.Random("%s/c01core/%d" % (O.seed, i))
        cfg = vlib.default_config()
        if rng.random() < 0.3:
            cfg["localVarPrefix"] = rng.choice(["t", "zz", "abcdef"])
        if rng.random() < 0.2:
            # the plus operator not configured: sums stay where they are (Sem.rw's plus_on = false)
            cfg["csiMethods"] = [m for m in cfg["csiMethods"] if m.get("src") != "plusOperator"]
        cs.append({"id": "c01core-%d" % i, "config": cfg, "calls": [{"code": coregen.program(O.seed, i), "file": "core.js"}], "opts": {}})
    results = C.run_cases(cs, "model,semtie", "c01core")
    tally = collections.Counter()
    breaks = 0
    for case, r, calls in results:
        cin, cout, m = calls[0]
        m = m or {}
        O.evaluations += 1
        ti, tm = m.get("semtie"), m.get("model:semtie")
        tally["implementation:%s" % ti] += 1
        tally["model:%s" % tm] += 1
        if ti == "agree" and C.is_modified(cout):
            O.nontrivial.add(cin["code"])
        if ti in ("differ", "not-core") or tm in ("differ", "not-core"):
            breaks += 1
            if breaks <= 2:
                O.break_("correspondence Sem.rw (the rewriting function of C01_core_equivalence) vs %s on a core expression: %s" %
                         ("the implementation" if ti != "agree" else "the executable model", ti if ti != "agree" else tm),
                         {"case": case, "correspondence": "coq/SemTie.v sem_tie", "implementation": ti, "model": tm,
                          "content": ((cout.get("result") or {}).get("content") or "")[:600]})
    O.coverage["core_language_tie"] = dict(tally)


def run(O, P):
    E.run(O, P, __import__("checks.C01", fromlist=["x"]), "C01")
    core_tie(O)
    # execution level
    import execgen
    n = 400 if O.tier == "quick" else 18000
    cs = []
    for i in range(n):
        rng = random.Random("%s/c01x/%d" % (O.seed, i))
        cfg = F.config_variants(rng) if rng.random() < 0.25 else vlib.default_config()
        cs.append({"id": "c01x-%d" % i, "config": cfg, "calls": [{"code": execgen.program("%s/c01" % O.seed, i), "file": "exec.js"}], "opts": {}})
    # every compound-assignment target of the generator, deterministically (which ones a seed draws must not decide
    # whether a key evaluated twice or an object read late is seen)
    for ti, tgt in enumerate(execgen.TARGETS):
        for ri, rhs in enumerate(["str", "f()", "a + b"]):
            body = "try { RES.push(%s += %s); RES.push(%s); } catch (e) { RES.push('T:' + e.constructor.name); }" % (tgt, rhs, "1")
            cs.append({"id": "c01tgt-%d-%d" % (ti, ri), "config": vlib.default_config(),
                       "calls": [{"code": "var RES = [];\nfunction main() {\n  " + body + "\n  return RES;\n}\n", "file": "exec.js"}], "opts": {}})
    # `eval` as a method "allowed without callee" (the tracer lists it): a bare call of the IDENTIFIER eval is a direct eval, which
    # sees the local scope; called through anything else it is an indirect one
    evalcfg = vlib.default_config()
    evalcfg["csiMethods"] = evalcfg["csiMethods"] + [{"src": "eval", "allowedWithoutCallee": True}]
    evalprogs = ["try { var secret = 'local'; RES.push(eval('secret')); } catch (e) { RES.push('T:' + e.constructor.name); }",
                 "try { let inner = 'in'; RES.push(eval('in' + 'ner')); } catch (e) { RES.push('T:' + e.constructor.name); }",
                 "try { RES.push((function (p) { return eval(str.length ? 'p' : 'q'); })('arg')); } catch (e) { RES.push('T:' + e.constructor.name); }",
                 "try { const k1 = 'k'; RES.push(eval(`k${1}`), eval(`${'k'}1`.trim())); } catch (e) { RES.push('T:' + e.constructor.name); }",
                 "try { RES.push(eval(a), eval(), eval('1', f())); } catch (e) { RES.push('T:' + e.constructor.name); }",
                 "try { RES.push((() => { var loc = 'L'; return eval('lo' + 'c') + eval?.('typeof loc'); })()); } catch (e) { RES.push('T:' + e.constructor.name); }"]
    for i, body in enumerate(evalprogs):
        for strict in (False, True):
            cs.append({"id": "c01eval-%d-%d" % (i, strict), "config": evalcfg,
                       "calls": [{"code": ("'use strict';\n" if strict else "") + "var RES = [];\nfunction main() {\n  " + body + "\n  return RES;\n}\n", "file": "exec.js"}], "opts": {}})
    # the shape catalogue, executed: every function `f` of a catalogue program is called with observable arguments
    import catalogue
    ncat = 500 if O.tier == "quick" else 18000
    kept = 0
    for i, code in enumerate(catalogue.catalogue("%s/c01catx" % O.seed, 4 * ncat)):
        if kept >= ncat:
            break
        if not code.lstrip("'\"; usectrilnoe").startswith("function f(a,b,o,k,r,q,x,y,z,i,arr){") or "super" in code or "await" in code or "yield" in code:
            continue
        # the source text of a function is observable (Function.prototype.toString) and the rewriter normalises arrow bodies:
        # programs that can coerce a function to a string are left to the tree-level checks
        if "=>" in code or code.count("function") > 1 or "class " in code:
            continue
        # loops on an (always truthy) observable run until the time limit: their logs are cut at arbitrary points;
        # written .call/.apply on an observable path falls under the property's exemption (path read vs this-argument order)
        if "while" in code or "for (" in code or ".call(" in code or ".apply(" in code or "import(" in code:
            continue
        # the catalogue's operand `f()` must be the observable `f`, not a recursive call of the function under test
        code = code.replace("function f(a,b,o,k,r,q,x,y,z,i,arr){", "function F0(a,b,o,k,r,q,x,y,z,i,arr){", 1)
        kept += 1
        main = ("\nfunction main() { var R = []; try { R.push(F0.call(o, a, b, o, k, r, q, x, y, z, i, arr)); } catch (e) { R.push('T:' + (e && e.constructor && e.constructor.name)); }"
                " try { R.push(F0.call(o, str, 'lit', o, 'p', [str], q, str, str, z, 1, arr)); } catch (e) { R.push('T:' + (e && e.constructor && e.constructor.name)); } return R; }\n")
        cs.append({"id": "c01catx-%d" % i, "config": vlib.default_config(), "calls": [{"code": code + main, "file": "catx.js"}], "opts": {}})
    for k in C.known_for("C01") + C.fixed_for("C01"):
        w = k["witness"]
        if "main" in w["code"] or "result" in w["code"]:
            cs.append({"id": "finding-" + k["id"], "config": w.get("config") or vlib.default_config(), "calls": [{"code": w["code"], "file": "w.js"}], "opts": {}})
    results = C.run_cases(cs, "model,classes,hygiene,shapes", "c01x")
    jobs, meta = [], []
    for case, r, calls in results:
        cin, cout, m = calls[0]
        if C.is_modified(cout):
            jobs.append({"id": case["id"], "input": cin["code"], "output": cout["result"]["content"], "exempt_coercion_order": "`" in cin["code"]})
            meta.append((case, m or {}))
    res = vlib.run_node("diff_exec.js", jobs, timeout=3000) if jobs else []
    known = C.known_for("C01")
    seen_known = collections.OrderedDict()
    if res is None or len(res) != len(jobs):
        O.break_("differential execution driver failed", {"correspondence": "tools/diff_exec.js"})
        res = []
    events = 0
    for (case, m), rr in zip(meta, res):
        O.evaluations += 1
        events += rr.get("events", 0)
        if rr["equal"]:
            if rr.get("events", 0) >= 3:
                O.nontrivial.add(case["calls"][0]["code"])
                if len(O.samples) < 4:
                    O.samples.append({"id": case["id"], "code": case["calls"][0]["code"][:300], "events": rr["events"], "outcome": rr["outcome"][:100]})
            continue
        classes = m.get("classes") or []
        code = case["calls"][0]["code"]
        cls = None
        if "call-apply-nonstatic-path" in classes:
            cls = "call-apply-nonstatic-path"
        elif "optional-call-through-chain" in classes:
            cls = "optional-call-through-chain"
        elif "bare-call-callee-assigned-in-arguments" in classes:
            cls = "bare-call-callee-assigned-in-arguments"
        elif any(k == "crossed" for k, _ in (m.get("out_hygiene") or [])):
            cls = "temps-cross-function-boundary"
        elif "sum-operand-omitted" in (m.get("out_shapes") or []):
            cls = "sum-operand-left-in-place-order"
        elif re.search(r"function\s*\w*\s*\([^)]*\bundefined\b", code) or re.search(r"\b(?:var|let|const)\s+undefined\b", code):
            cls = "undefined-rebound"       # hypothesis H5 does not hold for this input
        kk = [k for k in known if cls and k.get("class") == cls]
        if kk:
            seen_known.setdefault(kk[0]["id"], kk[0])
            continue
        # shrink: keep only the failing statement
        lines = code.split("\n")
        best = code
        stmts = [l for l in lines if l.startswith("  try")]
        for st in stmts:
            cand = "\n".join(l for l in lines if not l.startswith("  try") or l == st)
            cc = dict(case, calls=[{"code": cand, "file": "exec.js"}])
            rr2 = C.run_cases([cc], "model", "c01s")[0][2][0][1]
            if C.is_modified(rr2):
                d = vlib.run_node("diff_exec.js", [{"id": "s", "input": cand, "output": rr2["result"]["content"], "exempt_coercion_order": "`" in cand}])
                if d and not d[0]["equal"]:
                    best = cand; rr = d[0]
                    break
        O.violation("rewritten program behaves differently from the input: " + (rr.get("why") or "")[:300],
                    {"case": dict(case, calls=[{"code": best, "file": "exec.js"}]), "input_log": rr.get("input_log"), "output_log": rr.get("output_log")})
    for k in seen_known.values():
        line = "%s: %s" % (k["id"], k["what"])
        if line not in O.known:
            O.known.append(line)
    O.coverage["executed_pairs"] = len(jobs)
    O.coverage["events_observed_in_input_runs"] = events
    O.assumptions += ["H1 identifier reads have no side effects (no with-proxies, no global accessors); H2 reading .call/.apply/.bind of a callable is silent; "
                      "H5 undefined is not rebound; H6 a computed key is coerced to a property key at each access (read and write), as V8 does for o[k] += e; hooks are pass-through (the prologue's noop hooks)",
                      "exemptions of the property: error-message text, positions, reserved names, static X.prototype.m path vs this-argument order, coercion time of template substitutions",
                      "the execution oracle samples worlds (deterministic proxies, one mutator); the theorems quantify over all of them"]
