"""Helpers shared by the per-property checks."""
import collections, json, os, random, sys
import vlib, framework as F


def run_cases(cases, what, tag):
    """Run implementation and model on the cases. Returns list of (case, impl_case, [(call, impl_call, model_call)])."""
    impl = vlib.run_harness_sharded(cases, tag)
    model = vlib.run_model(cases, impl, what, tag)
    out = []
    for ci, (c, r) in enumerate(zip(cases, impl)):
        calls = []
        for ki, cin in enumerate(c["calls"]):
            cout = r["calls"][ki] if "calls" in r and ki < len(r["calls"]) else {}
            calls.append((cin, cout, model.get((ci, ki))))
        out.append((c, r, calls))
    return out


def one_call_case(case, ki=0):
    c = dict(case)
    c["calls"] = [case["calls"][ki]]
    return c


def is_modified(cout):
    """Whether the result carries rewritten code (what every consumer looks at), independently of the
    metrics object (whose correctness is the business of C12/C15 only)."""
    return cout.get("outcome") == "ok" and bool((cout.get("result") or {}).get("content"))


def impl_metrics(cout):
    if cout.get("outcome") != "ok":
        return None
    return cout["result"].get("metrics")


def model_agrees_basic(cout, m):
    """status / error agreement between implementation and model."""
    if cout.get("outcome") == "error" and "ast_in" not in cout:
        return True, ""           # syntax error: refused before the repository's own logic runs
    if m is None:
        return False, "model did not run"
    if m.get("driver_error"):
        return False, "driver error: " + m["driver_error"]
    if cout.get("outcome") == "error":
        if m.get("model") == "error" and m.get("model_error") == cout.get("error"):
            return True, ""
        if "ast_in" not in cout:
            return True, ""       # parse error: outside the model
        return False, "implementation refused (%s) but model says %s" % (cout.get("error", "")[:80], m.get("model"))
    if cout.get("outcome") == "panic":
        return False, "implementation panicked: " + cout.get("panic", "")
    if m.get("model") != "ok":
        return False, "model outcome %s (%s)" % (m.get("model"), m.get("model_error", ""))
    met = impl_metrics(cout)
    if met and met["status"] != m.get("model_status"):
        return False, "status impl=%s model=%s" % (met["status"], m.get("model_status"))
    return True, ""


def sample_of(case, extra=None):
    s = {"id": case["id"], "code": case["calls"][0]["code"][:300], "config_methods": len((case.get("config") or {}).get("csiMethods") or [])}
    if extra:
        s.update(extra)
    return s


def known_for(pid):
    return [k for k in F.load_known() if k["property"] == pid and k.get("status", "open") == "open"]


def fixed_for(pid):
    return [k for k in F.load_known() if k["property"] == pid and str(k.get("status", "")).startswith("fixed")]
