"""C08 -- every output is valid JavaScript of the same kind as the input."""
import collections, json, os, random, re
import vlib, framework as F
from checks import engine as E, common as C

WHAT = "model,hooks,roundtrip"
LEVEL = "proof"
RULE = ("150 real library files + repository test resources and snippets + seeded random programs + shape catalogue (scripts and modules, strict and sloppy, "
        "async / generator / class contexts), pooled configurations, comments on and off; every accepted modified result must (a) re-parse with the rewriter's own "
        "parser to a program of the input's kind that equals the printed tree (round trip), (b) compile in V8 as a script or as a module like the input does, "
        "(c) end with the trailer line; inputs V8 itself rejects are not judged; non-trivial = modified result; distinct by source text")
TRAILER = "\n//# sourceMappingURL=data:application/json;base64,"


def kind_of(sx):
    m = re.match(r"\(K (Script|Module) ", sx or "")
    return m.group(1) if m else None


def known_printer_issue(O, code_in, content):
    """swc's printer drops the blank between a legacy decimal literal with a leading zero (08, 09: sloppy mode) and the dot of
    a member access: the input has `08 .m`, the output `08.m` (known finding, third-party)."""
    kk = [k for k in C.known_for("C08") if k.get("class") == "printer-leading-zero-literal-member"]
    if kk and re.search(r"(?<![\w.$])0\d*[89]\d*\s+\.\s*[A-Za-z_$]", code_in) and re.search(r"(?<![\w.$])0\d*[89]\d*\.[A-Za-z_$]", content):
        line = "%s: %s" % (kk[0]["id"], kk[0]["what"])
        if line not in O.known:
            O.known.append(line)
        return True
    return False


def cases(O):
    n = 400 if O.tier == "quick" else 9000
    opts = {"reparse": True}
    cs = E.default_cases(O, "C08", n_quick=n, n_thorough=n, opts=opts)
    files = vlib.corpus_files()
    res = os.path.join(vlib.REPO, "test", "resources")
    for root, _d, fs in os.walk(res):
        for f in sorted(fs):
            if f.endswith((".js", ".mjs", ".cjs")):
                files.append(os.path.join(root, f))
    for i, p in enumerate(files):
        try:
            code = open(p, encoding="utf-8").read()
        except Exception:
            continue
        cs.append({"id": "file-%s" % os.path.basename(p), "config": vlib.default_config(comments=(i % 2 == 0)),
                   "calls": [{"code": code, "file": "pkg/" + os.path.basename(p)}], "opts": opts})
    extra = ["const load = async (u) => await get(u) + '/x';", "async function* g(a){ for await (const x of a) yield x + 's'; }",
             "class A extends B { constructor(a){ super(a + 'x'); } static #p = a + b; get [k + 'y']() { return super.m() + 1; } }",
             "export default async (a) => a + await b;", "import x from 'y'; export const z = x + `t${x}`;", "label: for (const a of b) { if (a + 1) continue label; }",
             "function f(){ return new.target + 'x'; }", "function f(a = arguments[0] + 's'){ 'use strict'; }".replace("'use strict'; ", ""), "var yield_ = a + b; var let_ = `x${a}`;",
             "if (a) function g(){ return a + b } else ;", "x = a ? (b, c + 'd') : (e => e + 'f');", "for (var i = a + 'x' in o) ;".replace(" = a + 'x'", ""),
             "({ a: b + 'c', get d(){ return e + 'f' }, async *g(){ yield h + 'i' }, [j + 'k']: 1 });", "a = b ?? (c + 'd'); e ||= f + 'g'; h ??= `i${j}`;",
             "tag`a${b + 'c'}d`; String.raw`x${y}`.trim();", "async () => { for await (const x of y) await (x + 'z'); }", "do x += 'a'; while (x.length < 3)", "a = function* (){ yield* b + 'c' }"]
    for i, code in enumerate(extra):
        cs.append({"id": "c08x-%d" % i, "config": vlib.default_config(), "calls": [{"code": code, "file": "x%d.js" % i}], "opts": opts})
    # top-level bindings named like what the file prologue mentions: whatever the prologue declares or reads must not collide with them
    k = 0
    for name in ["_ddiast", "globals", "noop", "res", "undefined_", "eval_"]:
        for form in ["const %s = globalThis.%s;", "let %s;", "class %s {}", "import %s from './m.js';", "import { %s } from './m.js';", "import * as %s from './m.js';",
                     "function %s() {}", "var %s;", "export const %s = 1;", "export default class %s {}"]:
            k += 1
            code = form.replace("%s", name) + "\nfunction add(a, b) {\n  return a + b;\n}\n"
            cs.append({"id": "c08top-%d" % k, "config": vlib.default_config(), "calls": [{"code": code, "file": "top%d.js" % k}], "opts": opts})
    # a reserved-prefix name bound in a header: refused, or else the output must still compile (no redeclaration by the injected let)
    cs += F.reserved_header_cases(opts)
    return cs


def run(O, P):
    cs = cases(O)
    results = C.run_cases(cs, WHAT, "c08")
    jobs, meta = [], []
    case_out = {}
    stats = collections.Counter()
    for case, r, calls in results:
        for cin, cout, m in calls:
            O.evaluations += 1
            def bad(what, **extra):
                O.violation(what, dict({"case": C.one_call_case(case)}, **extra))
            if not C.is_modified(cout):
                stats["not-modified-or-refused"] += 1
                continue
            content = cout["result"]["content"]
            kin = kind_of(cout.get("ast_in"))
            if cout.get("reparse_error"):
                if known_printer_issue(O, cin["code"], content):
                    continue
                bad("the rewriter's own parser rejects the output: " + cout["reparse_error"][:300]); continue
            krep = kind_of(cout.get("ast_reparsed"))
            if kin and krep and kin != krep:
                bad("the input is a %s, the output parses as a %s" % (kin, krep)); continue
            kout = kind_of(cout.get("ast_out"))
            if kin and kout and kin != kout:
                bad("the transformation changed the program kind from %s to %s" % (kin, kout)); continue
            if m and m.get("roundtrip_ok") is False:
                bad("the printed content does not re-parse to the tree that was printed: %s / %s" % ((m.get("roundtrip_diff_out") or "")[:200], (m.get("roundtrip_diff_reparsed") or "")[:200])); continue
            parts = content.split(TRAILER)
            if len(parts) != 2 or "\n" in parts[1].strip("\n"):
                bad("the source-map trailer is not the last line of the content"); continue
            kind = "module" if kin == "Module" else "script"
            jobs.append({"id": "in:" + case["id"], "code": cin["code"], "kind": kind})
            jobs.append({"id": "out:" + case["id"], "code": content, "kind": kind})
            case_out[case["id"]] = content
            meta.append((case, kind))
    res = vlib.run_node("node_parse.js", jobs, args=[], timeout=1800) if jobs else []
    if res is None:
        # SourceTextModule needs the flag: run through a wrapper invocation
        res = []
    if jobs and len(res) != len(jobs):
        O.break_("V8 syntax-check driver failed", {"correspondence": "node parser"})
    else:
        for (case, kind), rin, rout in zip(meta, res[0::2], res[1::2]):
            if not rin["ok"]:
                stats["input-rejected-by-v8"] += 1
                continue
            if not rout["ok"]:
                # known finding: swc's printer drops the blank between a legacy decimal literal with a leading zero (08, 09: sloppy
                # mode) and the dot of a member access
                if known_printer_issue(O, case["calls"][0]["code"], case_out.get(case["id"], "")):
                    continue
                O.violation("V8 accepts the input as a %s but rejects the output: %s" % (kind, rout["error"]), {"case": C.one_call_case(case)})
                continue
            stats["v8-accepts-output-" + kind] += 1
            O.nontrivial.add(case["calls"][0]["code"])
            if len(O.samples) < 5 and case["id"].startswith(("file-", "c08x")):
                O.samples.append({"id": case["id"], "kind": kind, "bytes": len(case["calls"][0]["code"])})
    O.coverage["cases"] = len(cs)
    O.coverage.update(dict(stats))
    O.assumptions += ["swc's code generator (precedence, ASI, escapes) is the printer contract of DESIGN C08: exercised on every case, not proved",
                      "V8 check is compile-only (vm.Script / vm.SourceTextModule); inputs V8 rejects are not judged"]
