"""C11 -- stack traces and locations of rewritten files report original file and line."""
import base64, collections, json, os, random, re
import vlib, framework as F
from checks import engine as E, common as C

NEED_HARNESS = True
LEVEL = "proof"
RULE = ("seeded throwing programs (known throw line and call-site line; filler lines, multi-line instrumented expressions, optional inline original "
        "map for chaining) rewritten by the real implementation and replayed through main.js (CacheRewriter) by a stand-in native module; histories: "
        "single rewrite, rewrite-lookup-rewrite (different layouts), rewrite then not-modified rewrite, interleaved files, unknown files, hostile "
        "lookup arguments; the rewritten content is run in Node and both prepareStackTrace paths are inspected; findEntry is also compared with the "
        "extracted Coq find_entry / lookup on random maps; non-trivial = a history whose run produced a frame inside a rewritten file; distinct by history")
B64 = "ABCDEFGHIJKLMNOPQRSTUVWXYZabcdefghijklmnopqrstuvwxyz0123456789+/"


def vlq(v):
    n = (-v << 1) | 1 if v < 0 else v << 1
    out = ""
    while True:
        d = n & 31
        n >>= 5
        if n:
            d |= 32
        out += B64[d]
        if not n:
            return out


# the pre-transpilation file's name, by line offset of the original map: one of them is hostile to String.prototype.replace patterns
ONAME = {100: "orig.ts", 7: "pri$&ce$1$$.ts", 1000: "/abs/src/orig.ts", 0: "orig.ts"}


def throwing_program(rng, modified=True, chained=False, evals=False):
    """Returns (code, {function name or '<top>': 1-based line}).  With evals, the error is thrown from code compiled by eval
    inside two functions of the file, so the stack has several frames whose eval origin lies in the file."""
    L = []
    first_line_call = (not evals) and rng.random() < 0.35
    if first_line_call:
        # the call site is the very first line of the file (function declarations are hoisted): original line 1 is line index 0
        L.append("thrower(helper('a', 'b'));")
    def filler():
        for _ in range(rng.randrange(0, 4)):
            L.append(rng.choice(["", "// filler", "var pad%d = %d;" % (rng.randrange(99), rng.randrange(9)), "/* c */"]))
    filler()
    L.append("function helper(a, b) {")
    if modified:
        L.append(rng.choice(["  const s = a + b;", "  const s = a +\n    b;", "  const s = `${a}-${b}`;", "  const s = a.concat(b);"]))
        L.append(rng.choice(["  return s.trim();", "  return s?.trim();", "  return (s + '').substring(0);"]))
    else:
        L.append("  const s = [a, b].join('');")
        L.append("  return s;")
    L.append("}")
    filler()
    dline = None
    if evals:
        L.append("function deep(w) {")
        if modified:
            L.append("  const tag = 'd' + w;")
        filler()
        dline = "\n".join(L).count("\n") + 2
        L.append("  return eval(\"(function inEvalB() { throw new Error(w); })()\");")
        L.append("}")
        filler()
    L.append("function thrower(x) {")
    if modified:
        L.append(rng.choice(["  const msg = 'p' + x;", "  let msg = 'p'; msg += x;", "  const msg = `p${x}`;"]))
    else:
        L.append("  const msg = ['p', x].join('');")
    filler()
    code_so_far = "\n".join(L)
    tline = code_so_far.count("\n") + 2
    if evals:
        L.append("  return eval(\"(function inEvalA() { return deep(msg); })()\");")
    else:
        L.append(rng.choice(["  throw new Error(msg);", "  throw new Error(msg); // boom", "  throw new Error('first line\\nat least two lines');"]) if not modified else
                 rng.choice(["  throw new Error(msg);", "  throw new Error(msg + '!');", "  throw new Error(`${msg}!`);",
                             # a message whose later lines look like frames
                             "  throw new Error(msg + '\\nat least one more line\\n    at fake (nowhere.js:1:1)');"]))
    L.append("}")
    filler()
    code_so_far = "\n".join(L)
    cline = code_so_far.count("\n") + 2
    if first_line_call:
        cline = 1
    else:
        L.append("thrower(helper('a', 'b'));")
    code = "\n".join(L) + "\n"
    lines = {"thrower": tline, "<top>": cline}
    if evals:
        lines["deep"] = dline
    off = 0
    if chained:
        off = rng.choice([100, 7, 1000])
        n = code.count("\n")
        # half of the original maps list a source that is never used BEFORE the one that is: the ids of the chained map are its own
        two = rng.random() < 0.5
        mappings = ";".join("A" + ("C" if (two and i == 0) else "A") + vlq(off if i == 0 else 1) + "A" for i in range(n))
        omap = {"version": 3, "sources": (["unused.ts", ONAME[off]] if two else [ONAME[off]]), "names": [], "mappings": mappings}
        code += "//# sourceMappingURL=data:application/json;base64," + base64.b64encode(json.dumps(omap).encode()).decode() + "\n"
    return code, lines, off


def parse_frames(stack):
    out = []
    for l in (stack or "").split("\n"):
        m = re.match(r"\s*at (?:(\S+) \()?(.*?):(\d+):(\d+)\)?$", l)
        if m:
            out.append({"fn": m.group(1), "file": m.group(2), "line": int(m.group(3)), "column": int(m.group(4))})
    return out


def run(O, P):
    n = 60 if O.tier == "quick" else 1800
    histories = []
    native_cases = []
    def native(cfg, code, file):
        native_cases.append({"id": "n%d" % len(native_cases), "config": cfg, "calls": [{"code": code, "file": file}], "opts": {"ast": False}})
        return len(native_cases) - 1
    for i in range(n):
        rng = random.Random("%s/c11/%d" % (O.seed, i))
        kind = ["single", "rewrite-lookup-rewrite", "then-notmodified", "interleaved", "chained", "single", "chained-rewrite-twice", "then-refused"][i % 8]
        chained = kind.startswith("chained")
        cfg = vlib.default_config(chainSourceMap=chained, telemetryVerbosity=["DEBUG", "OFF", "INFORMATION", "MANDATORY", "DEBUG"][i % 5])
        fa, fb = "/app/src/a%d.js" % i, "/app/lib/b%d.js" % i
        if i % 9 == 4:
            # directly under the root: the directory is the root, not the empty path
            fa, fb = "/a%d.js" % i, "/b%d.js" % i
        elif i % 4 == 3:
            # spellings that are not normalised paths
            fa = rng.choice(["/app/lib/../src/a%d.js", "/app/./src/a%d.js", "/app//src/a%d.js", "./src/a%d.js", "src/../a%d.js"]) % i
        elif i % 5 == 2:
            # names outside ASCII (the embedded map carries them as UTF-8) and with a space
            fa = rng.choice(["/app/src/café%d.js", "/app/日本語/a%d.js", "/app/src/a b%d.js", "/app/src/ü\U0001F600%d.js"]) % i
            fb = "/app/lib/ñ%d.js" % i
        steps, expect = [], []
        use_evals = (i % 3 == 1)
        def rw(file, modified=True, ch=chained):
            code, lines, off = throwing_program(rng, modified, ch, evals=use_evals)
            steps.append({"op": "rewrite", "file": file, "code": code, "native": native(cfg, code, file)})
            return lines, off
        if kind in ("single", "chained"):
            lines, off = rw(fa)
            steps.append({"op": "run", "file": fa}); expect.append((len(steps) - 1, fa, lines, off, True))
        elif kind in ("rewrite-lookup-rewrite", "chained-rewrite-twice"):
            rw(fa)
            steps.append({"op": "lookup", "file": fa, "line": 12, "column": 5})
            steps.append({"op": "run", "file": fa})
            lines, off = rw(fa)
            steps.append({"op": "run", "file": fa}); expect.append((len(steps) - 1, fa, lines, off, True))
        elif kind == "then-notmodified":
            rw(fa)
            steps.append({"op": "run", "file": fa})
            lines, off = rw(fa, modified=False, ch=False)
            steps.append({"op": "run", "file": fa}); expect.append((len(steps) - 1, fa, lines, 0, False))
        elif kind == "then-refused":
            # the second rewrite of the file is refused (a reserved identifier): the caller serves that text as written,
            # the map of the first rewrite no longer applies
            rw(fa)
            steps.append({"op": "run", "file": fa})
            code, lines, off = throwing_program(rng, True, False, evals=use_evals)
            code = "var __datadog_test_0 = 1; // reserved\n" + code
            lines = {k: v + 1 for k, v in lines.items()}
            steps.append({"op": "rewrite", "file": fa, "code": code, "native": native(cfg, code, fa)})
            steps.append({"op": "run", "file": fa}); expect.append((len(steps) - 1, fa, lines, 0, False))
        elif kind == "interleaved":
            la, offa = rw(fa)
            lb, offb = rw(fb)
            steps.append({"op": "run", "file": fa}); expect.append((len(steps) - 1, fa, la, offa, True))
            la2, offa2 = rw(fa)
            steps.append({"op": "run", "file": fb}); expect.append((len(steps) - 1, fb, lb, offb, True))
            steps.append({"op": "run", "file": fa}); expect.append((len(steps) - 1, fa, la2, offa2, True))
        if i % 40 == 5:
            # many other files are rewritten (and looked up) in between: the map of a rewritten file is kept as long as the file is served
            small = "function other(a, b) {\n  return a + b;\n}\n"
            for j in range(1100):
                fo = "/app/many/m%d_%d.js" % (i, j)
                steps.append({"op": "rewrite", "file": fo, "code": small, "native": native(cfg, small, fo)})
                if j % 100 == 0:
                    steps.append({"op": "lookup", "file": fo, "line": 2, "column": 3})
            idx0, f0, l0, o0, m0 = expect[-1]
            steps.append({"op": "run", "file": f0}); expect.append((len(steps) - 1, f0, l0, o0, m0))
        # files nothing is known about, hostile arguments: unchanged, never throw
        for (f, l, c) in [("/nowhere/x.js", 3, 4), ("", 1, 1), (fa + ".other", 10, 2), (fa, 0, 0), (fa, -5, -1), (fa, 10 ** 9, 1), (fa, 2, 10 ** 9), (None, 1, 1), (fa, None, None), (fa, "7", "3"), (fa, 1.5, 2.5)]:
            steps.append({"op": "lookup", "file": f, "line": l, "column": c, "hostile": True})
        histories.append({"id": "h%d-%s" % (i, kind), "steps": steps, "expect": expect, "kind": kind})
    vlib.build_harness()
    nat = vlib.run_harness_sharded(native_cases, "c11")
    for h in histories:
        for st in h["steps"]:
            if st["op"] == "rewrite":
                call = nat[st.pop("native")]["calls"][0]
                if call.get("outcome") == "ok":
                    st["response"] = call["result"]
                else:
                    st["error"] = call.get("error") or call.get("panic") or "error"
    res = vlib.run_node("pkg_history.js", [{"id": h["id"], "steps": h["steps"]} for h in histories])
    if res is None or len(res) != len(histories):
        O.break_("package history driver failed", {"correspondence": "main.js / js/source-map / js/stack-trace driver"})
        res = []
    kinds = collections.Counter()
    for h, rr in zip(histories, res):
        O.evaluations += 1
        results = rr["results"]
        def bad(what, **extra):
            O.violation(what, dict({"history": {"id": h["id"], "steps": [{k: (v if k != "response" else {"metrics": v.get("metrics")}) for k, v in s.items()} for s in h["steps"]]}}, **extra))
        failed = False
        for st, r in zip(h["steps"], results):
            if isinstance(r, dict) and "step_threw" in r:
                bad("the package API threw: %s" % r["step_threw"][:300]); failed = True; break
            if st["op"] == "lookup" and st.get("hostile"):
                known_file = any(s["op"] == "rewrite" and s["file"] == st["file"] and bool(((s.get("response") or {}).get("content"))) for s in h["steps"])
                if not known_file and (r is None or r.get("path") != st["file"] or r.get("line") != st["line"] or r.get("column") != (st["column"] if st["column"] is not None else 0)):
                    bad("lookup in a file nothing is known about is not the identity: asked %r got %r" % ((st["file"], st["line"], st["column"]), r)); failed = True; break
        if failed:
            continue
        for (idx, file, lines, off, mapped) in h["expect"]:
            r = results[idx]
            for mode in ("string", "structured"):
                got = r.get(mode) or {}
                if not got.get("threw"):
                    bad("the rewritten program did not throw (%s)" % mode); failed = True; break
                st = got.get("stack")
                if isinstance(st, str) and st.startswith("PREPARE THREW"):
                    bad("prepareStackTrace threw: " + st[:200]); failed = True; break
                fr = parse_frames(st) if isinstance(st, str) else [dict(f, fn=f.get("fn")) for f in (st or [])]
                want_file = (ONAME[off] if os.path.isabs(ONAME[off]) else os.path.join(os.path.dirname(file), ONAME[off])) if off else file
                # a path and its normalised spelling name the same file
                NP = lambda x: os.path.normpath(x) if isinstance(x, str) and x else x
                mine = [f for f in fr if NP(f.get("file")) in (NP(file), NP(want_file))]
                byfn = {}
                for f in mine:
                    byfn.setdefault(f.get("fn") if f.get("fn") in ("thrower", "helper", "deep") else "<top>", f)
                if mode == "string" and "deep" in lines and isinstance(st, str):
                    origins = re.findall(r"eval at (\w+) \((.+?):(\d+):(\d+)\)", st)
                    if len(origins) < 2:
                        bad("no eval frames in the stack of a program that throws from eval code", stack=st); failed = True; break
                    for (ofn, ofile, oline, ocol) in origins:
                        if ofn in lines and (NP(ofile) != NP(want_file) or int(oline) != lines[ofn] + (off if off else 0)):
                            if not os.path.isabs(file) and NP(ofile) == NP(file):
                                # known finding: the eval-origin pattern only accepts absolute paths
                                for kf in C.known_for("C11"):
                                    if kf.get("class") == "eval-frame-relative-file-name":
                                        line = "%s: %s" % (kf["id"], kf["what"])
                                        if line not in O.known:
                                            O.known.append(line)
                                        break
                                else:
                                    bad("eval frame of a file rewritten under a relative name is not translated", stack=st); failed = True
                                break
                            bad("eval frame: the eval origin in %s is reported at %s:%s, the original position is %s:%d (history kind %s)"
                                % (ofn, ofile, oline, want_file, lines[ofn] + (off if off else 0), h["kind"]), stack=st); failed = True; break
                    if failed:
                        break
                for fn in (("deep",) if "deep" in lines else ()) + ("thrower", "<top>"):
                    f = byfn.get(fn)
                    exp_line = lines[fn] + (off if off else 0)
                    if f is None:
                        bad("no frame for %s in %s (%s path)" % (fn, file, mode), stack=st if isinstance(st, str) else fr[:6]); failed = True; break
                    if f["line"] != exp_line or NP(f["file"]) != NP(want_file):
                        bad("frame of %s is reported at %s:%d, the original position is %s:%d (%s prepareStackTrace path, history kind %s)"
                            % (fn, f["file"], f["line"], want_file, exp_line, mode, h["kind"]), stack=st if isinstance(st, str) else fr[:6]); failed = True; break
                if failed:
                    break
            if failed:
                break
            # the same frames looked up by line only: a position somewhere on the line is on that line
            for lo in (r.get("lineonly") or []):
                if lo.get("fn") not in ("thrower", None) or not isinstance(lo.get("withcol"), dict) or not isinstance(lo.get("nocol"), dict):
                    continue
                if (lo["withcol"].get("path"), lo["withcol"].get("line")) != (lo["nocol"].get("path"), lo["nocol"].get("line")):
                    bad("a lookup without a column (line %s of %s) answers %s:%s, the lookup of the frame's own position (column %s) answers %s:%s"
                        % (lo["line"], file, lo["nocol"].get("path"), lo["nocol"].get("line"), lo["column"], lo["withcol"].get("path"), lo["withcol"].get("line"))); failed = True; break
                O.coverage["line_only_lookups"] = O.coverage.get("line_only_lookups", 0) + 1
            if failed:
                break
        if not failed:
            kinds[h["kind"]] += 1
            O.nontrivial.add(h["id"])
            if len(O.samples) < 4:
                O.samples.append({"id": h["id"], "kind": h["kind"], "steps": [s["op"] for s in h["steps"]][:8], "expected_lines": [e[2] for e in h["expect"]]})
    # findEntry (JS) vs the extracted find_entry / lookup (Coq) on random maps
    nmaps = 40 if O.tier == "quick" else 1200
    jobs, blocks = [], []
    for i in range(nmaps):
        rng = random.Random("%s/c11map/%d" % (O.seed, i))
        nl = rng.randrange(1, 12)
        segs = []
        for li in range(nl):
            cols = sorted(set(rng.randrange(0, 60) for _ in range(rng.randrange(0, 5))))
            parts, pc = [], 0
            for c in cols:
                parts.append(vlq(c - pc) + vlq(0) + vlq(rng.randrange(-3, 6)) + vlq(rng.randrange(-4, 9)))
                pc = c
            segs.append(",".join(parts))
        mappings = ";".join(segs)
        queries = [(rng.randrange(0, nl + 2), rng.randrange(0, 70)) for _ in range(25)] + [(0, 0)]
        jobs.append({"id": "m%d" % i, "steps": [{"op": "find", "payload": {"version": 3, "sources": ["s.js"], "names": [], "mappings": mappings}, "queries": queries}]})
        blocks.append("BEGIN\tm%d\nMAP\tM\t%s\n%s\nRUN\tdecode,lookup\nEND\n" % (i, vlib.esc(mappings), "\n".join("QUERY\t%d\t%d" % q for q in queries)))
    jr = vlib.run_node("pkg_history.js", jobs)
    dr = vlib.run_driver_text("".join(blocks), "c11maps") if blocks else []
    if jr is None or len(jr) != len(dr):
        O.break_("findEntry correspondence driver failed", {"correspondence": "findEntry vs extracted find_entry"})
    else:
        cmp_n = 0
        for job, a, b in zip(jobs, jr, dr):
            js = a["results"][0]
            coq = b.get("lookups")
            if not isinstance(coq, list) or not isinstance(js, list) or len(coq) != len(js):
                O.break_("findEntry correspondence: unreadable results", {"correspondence": "findEntry", "job": job["id"]}); break
            for q, x, y in zip(job["steps"][0]["queries"], js, coq):
                cmp_n += 1
                O.evaluations += 1
                jx = x[:2] + x[3:5] if x else []
                cy = (y[1][:2] + y[1][3:5]) if (y and y[1] != "none") else []
                ly = (y[0][:2] + y[0][3:5]) if (y and y[0] != "none") else []
                if jx[:2] != cy[:2] or jx[:2] != ly[:2]:
                    O.break_("findEntry (JS) %s, find_entry (Coq) %s, glb lookup (Coq) %s at %s" % (jx, cy, ly, q),
                             {"correspondence": "js/source-map/node_source_map.js findEntry vs SrcMap.find_entry", "payload": job["steps"][0]["payload"], "query": q})
                    break
        O.coverage["findEntry_queries_compared"] = cmp_n
    O.coverage["histories"] = len(histories)
    O.coverage["histories_ok_by_kind"] = dict(kinds)
    O.assumptions += ["V8's call-site objects and stack formatting are exercised in Node, not modelled; columns are not judged",
                      "main.js runs against a stand-in native module replaying the native implementation's real results (no wasm build in the sandbox)",
                      "lru-cache: the installed 7.x copy or a Map-based stand-in"]
