"""C06 -- injected temporaries are hygienic."""
import random
import vlib, framework as F
from checks import engine as E
from checks.engine import Failure

WHAT = "model,hooks,classes,hygiene"
LEVEL = "proof"
RULE = ("regression corpus + repository test snippets + seeded random programs, a third of them planting identifiers with the reserved "
        "prefix (parameters, declarations, uses); coq/Hygiene.v (extracted) checks declaration, activation, assignment-before-read, "
        "no clobbering and clashes on the implementation's output tree; non-trivial = output declares at least one temporary or the "
        "rewrite was refused; distinct by source text")

CLASS_OF = {"crossed": "temps-cross-function-boundary"}


def cases(O):
    n = 700 if O.tier == "quick" else 12000
    cases = E.default_cases(O, "C06", n_quick=n, n_thorough=n)
    # planted reserved identifiers: the configuration's prefix is fixed so that the generator can aim at it
    for i in range(n // 2):
        rng = random.Random("%s/c06r/%d" % (O.seed, i))
        cfg = F.config_variants(rng)
        cfg["localVarPrefix"] = "t"
        import jsgen
        code = jsgen.program("%s/c06r" % O.seed, i, reserved_prefix="__datadog_t_", p_reserved=rng.choice([0.02, 0.05, 0.15]))
        cases.append({"id": "c06r-%d" % i, "config": cfg, "calls": [{"code": code, "file": "r.js"}], "opts": {}})
    for k in (0, 1):
        cases += E.catalogue_cases(O.seed, n // 2, "c06cat%d" % k, reserved="__datadog_t_%d" % k, prefix="t")
    # every syntactic position of a user identifier that carries the reserved prefix, next to operations that need temporaries
    # (deterministic: the detection of a narrowed refusal check must not depend on sampling)
    pos = ["delete o[%s]", "delete %s.p", "((p = %s) => p)()", "((p = %s) => { return p; })()", "`lit${'x'}${%s}`", "`${'x'}${%s}`", "q(%s)", "%s.p", "o[%s]", "({ %s })",
           "({ k: %s }).k", "%s = 1", "[%s] = arr", "({ k: %s } = o)", "typeof %s", "void %s", "%s++", "new %s()", "%s`tpl`", "tag`p${%s}`", "(function () { return %s; })()",
           "(() => %s)()", "class K { f = %s; }", "class K { static s = %s; }", "class K { m(p = %s) {} }", "function inner(%s) {}", "function inner(p = %s) {}",
           "function %s() {}", "class %s {}", "var %s", "let %s = 1", "const { %s } = o", "const [ %s ] = arr", "try {} catch (%s) {}", "for (const %s of arr) {}", "for (%s in o) {}",
           "%s: for (;;) { break; }", "import(%s)", "x = %s ? 1 : 2", "x = y ?? %s", "x = a?.[%s]", "x = a?.p(%s)", "super.m(%s)" if False else "o.m(%s)", "[...%s]", "q(...%s)",
           "x = { ...%s }", "async () => { await %s; }", "function* g2() { yield %s; }", "%s += 'a'", "o[%s] += 'a'", "x = %s + f()", "x = f() + %s", "x = %s.trim()", "x = a.concat(%s)"]
    ops = ["y = a + f();", "y = f() + g();", "y = `${a}${f()}`;", "y = a.concat(f());", "w += f();"]
    k = 0
    for pi, ptn in enumerate(pos):
        for ni in (0, 1):
            name = "__datadog_t_%d" % ni
            stmt = ptn % name
            if not stmt.endswith("}") and not stmt.endswith(";"):
                stmt += ";"
            for wrap in ("function f(a, o, q, arr, x, y, w){ %s %s }", "{ %s %s }", "function f(a, o, q, arr, x, y, w){ %s { %s } }", "function f(a, o, q, arr, x, y, w){ { %s } %s }"):
                op = ops[(pi + ni + k) % len(ops)]
                k += 1
                code = wrap % ((stmt, op) if k % 2 else (op, stmt))
                cases.append({"id": "c06pos-%d-%d-%d" % (pi, ni, k), "config": vlib.default_config(localVarPrefix="t"),
                              "calls": [{"code": code, "file": "pos.js"}], "opts": {}})
    cases += F.reserved_header_cases()
    return cases


def judge(ctx):
    m = ctx.m
    out = []
    if ctx.ok:
        seen = set()
        for kind, name in m.get("out_hygiene") or []:
            if kind in seen:
                continue
            seen.add(kind)
            out.append(Failure("hygiene: %s %s" % (kind, name), cls=CLASS_OF.get(kind)))
    return out


def nontrivial(ctx):
    return ctx.modified or (ctx.cout.get("outcome") == "error" and "duplicated" in (ctx.cout.get("error") or ""))


def sample_info(ctx):
    return {"outcome": ctx.cout.get("outcome"), "error": (ctx.cout.get("error") or "")[:80]}


def run(O, P):
    E.run(O, P, __import__("checks.C06", fromlist=["x"]), "C06")
    O.assumptions += ["injected occurrences are recognised by the reserved prefix + swc's dummy span; user occurrences by a real span",
                      "JS lexical scoping links 'declared by the let of the same block, same activation' to privacy (informal, DESIGN 4.2)"]
