"""C07 -- directive prologues survive in every function and in the file."""
from checks import engine as E
from checks.engine import Failure

WHAT = "model,hooks,classes,directives"
LEVEL = "proof"
RULE = ("regression corpus + the repository's test snippets + seeded random programs (gen/jsgen.py puts 'use strict' / other "
        "directives, single and multiple, at file level and in function bodies) under pooled configurations; non-trivial = the "
        "implementation modified the file and the input has at least one directive; distinct by source text")
NEED_REPARSE = False


def directive_table():
    """Directive prologues at file level x program kind (script / module) x what precedes or follows them, each with something that
    is instrumented (so that the `let` and the file prologue have to find their place)."""
    import vlib
    heads = ["'use strict';", "'use client'\n\"use strict\";", "'use asm'; 'other';", "#!/usr/bin/env node\n'use strict';", "// c\n'use strict' // t\n;", "/* c */ 'use strict'",
             "", "'use strict'\n'use strict'", ";'use strict';", "('use strict');", "'use\\x20strict';"]
    kinds = ["function f(a, b) { return a + b }", "import x from 'y'\nexport function f(a, b) { return a + b }", "export default (a, b) => { 'use strict'; return a + b }",
             "export const g = function (a) { 'one'; 'two'; return a.trim() }", "import 'side'\nfunction f(a){ return `${a}` }", "class K { m(a) { 'use strict'; return a + 1 } static { 'no directive here'; k = a + b } }",
             "function f(a) { 'use strict' ; { 'not a directive'; return a + a } }", "export {}; function f(a, b) { 'a'; 'b'; 'c'; return a + b }"]
    out = []
    for hi, h in enumerate(heads):
        for ki, k in enumerate(kinds):
            out.append({"id": "dir-%d-%d" % (hi, ki), "config": vlib.default_config(comments=(hi + ki) % 2 == 0), "calls": [{"code": (h + "\n" if h else "") + k + "\n", "file": "d.js"}], "opts": {}})
    return out


def cases(O):
    return E.default_cases(O, "C07", n_quick=900, n_thorough=15000) + directive_table()


def judge(ctx):
    if not ctx.ok or "directives_ok" not in ctx.m:
        return []
    if ctx.m["directives_ok"] is False:
        return [Failure("directive prologue not preserved or an injected statement is not placed right after it "
                        "(directives in: %s, out: %s)" % (ctx.m.get("in_directives"), ctx.m.get("out_directives")))]
    return []


def nontrivial(ctx):
    return ctx.modified and (ctx.m.get("in_directives") or 0) > 0


def sample_info(ctx):
    return {"directives_in_input": ctx.m.get("in_directives"), "status": ctx.met and ctx.met["status"]}


def run(O, P):
    E.run(O, P, __import__("checks.C07", fromlist=["x"]), "C07")
    O.assumptions += ["a directive is an expression statement that is a bare string literal at the head of a body (swc's can_precede_directive); "
                      "blocks are paired between input and output by their source span",
                      "swc's printer emits directive statements verbatim (exercised by the C08 check, not proved)"]
