"""C07 -- directive prologues survive in every function and in the file."""
from checks import engine as E
from checks.engine import Failure

WHAT = "model,hooks,classes,directives"
LEVEL = "proof"
RULE = ("regression corpus + the repository's test snippets + seeded random programs (gen/jsgen.py puts 'use strict' / other "
        "directives, single and multiple, at file level and in function bodies) under pooled configurations; non-trivial = the "
        "implementation modified the file and the input has at least one directive; distinct by source text")
NEED_REPARSE = False


def cases(O):
    return E.default_cases(O, "C07", n_quick=900, n_thorough=15000)


def judge(ctx):
    if not ctx.ok or "directives_ok" not in ctx.m:
        return []
    if ctx.m["directives_ok"] is False:
        return [Failure("directive prologue not preserved or an injected statement is not placed right after it "
                        "(directives in: %s, out: %s)" % (ctx.m.get("in_directives"), ctx.m.get("out_directives")))]
    return []


def nontrivial(ctx):
    return ctx.modified and (ctx.m.get("in_directives") or 0) > 0


def sample_info(ctx):
    return {"directives_in_input": ctx.m.get("in_directives"), "status": ctx.met and ctx.met["status"]}


def run(O, P):
    E.run(O, P, __import__("checks.C07", fromlist=["x"]), "C07")
    O.assumptions += ["a directive is an expression statement that is a bare string literal at the head of a body (swc's can_precede_directive); "
                      "blocks are paired between input and output by their source span",
                      "swc's printer emits directive statements verbatim (exercised by the C08 check, not proved)"]
