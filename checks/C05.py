"""C05 -- configuration honoured exactly; only configured hooks are ever referenced; defaults; prologue."""
import collections, copy, json, os, random, re, subprocess
import vlib, framework as F
from checks import engine as E, common as C
from checks.engine import Failure

WHAT = "model,hooks,classes,toconfig,wf"
LEVEL = "proof"
RULE = ("regression corpus + repository test snippets + seeded random programs, each under a random configuration AND a twin configuration "
        "that differs only in entries whose names do not occur in the program (locality), plus configurations with an empty method list / only "
        "operators / omitted options; hook names and (source operation -> replacement name) pairs of the implementation's output are checked "
        "against the configuration, the resolved configuration against the Coq to_config model, the emitted prologue is executed in Node realms; "
        "non-trivial = modified output or an option left to its default; distinct by (source, configuration)")

PRO_START = "if (typeof _ddiast === 'undefined')"
PRO_END = "}((1, eval)('this')));"


def strip_prologue(content):
    body = content.split("\n//# sourceMappingURL=")[0]
    i = body.find(PRO_START)
    j = body.find(PRO_END)
    if i >= 0 and j > i:
        pre = body[:i].rstrip()
        if pre.endswith(";"):
            pre = pre[:-1]
        return pre + body[j + len(PRO_END):], body[i:j + len(PRO_END)]
    return body, None


def words(code):
    return set(re.findall(r"[A-Za-z_$][\w$]*", code))


def option_variants(rng):
    """Configurations exercising omitted options and odd spellings."""
    cfg = {}
    if rng.random() < 0.7:
        cfg["csiMethods"] = rng.choice([[], [{"src": "plusOperator", "operator": True}],
                                        [{"src": "trim"}, {"src": "concat", "dst": "cc"}],
                                        [dict(m) for m in vlib.DEFAULT_METHODS]])
    for k in ("chainSourceMap", "comments", "literals"):
        if rng.random() < 0.4:
            cfg[k] = rng.random() < 0.5
    if rng.random() < 0.5:
        cfg["localVarPrefix"] = rng.choice(["p", "abc", "X_1"])
    if rng.random() < 0.7:
        cfg["telemetryVerbosity"] = rng.choice(["off", "Off", "OFF", "mandatory", "INFORMATION", "Debug", "DEBUG", "", "verbose", "oFF "])
    # keys the package's own wrapper (main.js) reads from the same object, and keys nobody knows: they do not concern the native options
    if rng.random() < 0.5:
        cfg[rng.choice(["logLevel", "logger", "extra", "orchestrion"])] = rng.choice(["ERROR", None, 1, {"a": 1}])
    if rng.random() < 0.3 and isinstance(cfg.get("csiMethods"), list) and cfg["csiMethods"]:
        cfg["csiMethods"] = [dict(m, comment="why") if i == 0 else m for i, m in enumerate(cfg["csiMethods"])]
    return cfg


def cases(O):
    n = 500 if O.tier == "quick" else 9000
    base = F.regress_cases() + F.snippet_cases()[:60] + F.generated_cases(O.seed, n, "c05", cfg_fn=F.config_variants)
    out = []
    for c in base:
        out.append(c)
        rng = random.Random("%s/twin/%s" % (O.seed, c["id"]))
        cfg = copy.deepcopy(c["config"]) if c.get("config") else None
        if not cfg or not isinstance(cfg.get("csiMethods"), list):
            continue
        w = set()
        for call in c["calls"]:
            w |= words(call["code"])
        twin = copy.deepcopy(cfg)
        # entries about names the program never mentions: add some, rename the dst of others
        twin["csiMethods"].append({"src": "zzNeverUsed1", "dst": "zzDst"})
        twin["csiMethods"].insert(0, {"src": "zzNeverUsed2", "allowedWithoutCallee": True})
        for m in twin["csiMethods"]:
            if not m.get("operator") and m["src"] not in w and rng.random() < 0.5:
                m["dst"] = "other_" + m["src"]
        out.append(dict(c, id=c["id"] + "~twin", config=twin, twin_of=c["id"]))
    for i in range(n // 2):
        rng = random.Random("%s/opt/%d" % (O.seed, i))
        import jsgen
        out.append({"id": "c05opt-%d" % i, "config": option_variants(rng),
                    "calls": [{"code": jsgen.program("%s/c05opt" % O.seed, i), "file": "o.js"}], "opts": {}})
    # the two operator names as entries with the operator flag false or omitted (then they are ordinary method names), listed twice with
    # different flags / replacement names, in every order -- against a program that has the operators and methods of those very names
    prog = "function f(a, b, o) { const s = a + b; const t = `Hello ${a}`; o.x += b; return o.tplOperator(s) + o.plusOperator(t, a).trim(); }"
    ent = {"P+": {"src": "plusOperator", "operator": True}, "P-": {"src": "plusOperator"}, "Pf": {"src": "plusOperator", "operator": False, "dst": "plus"},
           "T+": {"src": "tplOperator", "operator": True}, "T-": {"src": "tplOperator"}, "Tf": {"src": "tplOperator", "operator": False, "dst": "tpl"},
           "Td": {"src": "tplOperator", "operator": True, "dst": "tplRenamed"}, "m": {"src": "trim", "dst": "stringTrim"}, "mo": {"src": "trim", "operator": True}}
    import itertools
    k = 0
    for r in (1, 2, 3):
        for combo in itertools.permutations(sorted(ent), r):
            if r == 3 and (k % 7):      # a seventh of the triples
                k += 1
                continue
            k += 1
            out.append({"id": "c05ops-%s" % "".join(combo), "config": vlib.default_config(csiMethods=[dict(ent[e]) for e in combo]),
                        "calls": [{"code": prog, "file": "ops.js"}], "opts": {}})
    out.append({"id": "c05-null-config", "config": None, "calls": [{"code": "function f(a,b){return a+b.trim();}", "file": "n.js"}], "opts": {}})
    out.append({"id": "c05-bad-config", "config": {"csiMethods": "nonsense"}, "calls": [{"code": "function f(a,b){return a+b.trim();}", "file": "n.js"}], "opts": {}})
    out += E.finding_cases("C05")
    return out


def judge(ctx):
    m, cfg = ctx.m, ctx.cfg
    out = []
    methods = cfg.get("methods") or []
    dsts = set(x["dst"] for x in methods)
    # (d) the resolved configuration against the to_config model
    raw = ctx.case.get("config")
    if isinstance(raw, dict) and "tc_chain" in m and not (raw.get("csiMethods") is not None and not isinstance(raw.get("csiMethods"), list)):
        exp = {"chainSourceMap": m["tc_chain"], "comments": m["tc_comments"], "literals": m["tc_literals"], "verbosity": m["tc_verbosity"]}
        for k, v in exp.items():
            if cfg.get(k) != v:
                out.append(Failure("resolved option %s = %r, the to_config model (documented defaults) says %r" % (k, cfg.get(k), v)))
        # the documented defaults, from the property text (independent of the model and of the generated constants)
        for k, dv in (("chainSourceMap", False), ("comments", False), ("literals", True)):
            if not isinstance(raw.get(k), bool) and cfg.get(k) != dv:
                out.append(Failure("omitted option %s resolves to %r, documented default is %r" % (k, cfg.get(k), dv)))
        if not isinstance(raw.get("telemetryVerbosity"), str) and cfg.get("verbosity") != "INFORMATION":
            out.append(Failure("omitted telemetryVerbosity resolves to %r, documented default is INFORMATION" % cfg.get("verbosity")))
        for x, rm in zip(methods, raw.get("csiMethods") or []):
            if not isinstance(rm.get("dst"), str) and x["dst"] != x["src"]:
                out.append(Failure("method %r without dst resolves to replacement name %r" % (x["src"], x["dst"])))
        got = [[x["src"], x["dst"], x["operator"], x["allowedWithoutCallee"]] for x in methods]
        if got != m["tc_methods"]:
            out.append(Failure("resolved methods %s differ from the to_config model %s" % (got[:4], m["tc_methods"][:4])))
        if cfg.get("literalCallers") != m["tc_lit_callers"]:
            out.append(Failure("literal-caller list %s differs from the model %s" % (cfg.get("literalCallers"), m["tc_lit_callers"])))
        if isinstance(raw.get("localVarPrefix"), str):
            if cfg.get("localVarPrefix") != raw["localVarPrefix"]:
                out.append(Failure("prefix %r not honoured (%r)" % (raw["localVarPrefix"], cfg.get("localVarPrefix"))))
        else:
            p = cfg.get("localVarPrefix") or ""
            if not re.fullmatch(r"[a-z]{6}", p):
                out.append(Failure("default prefix %r is not six lowercase letters" % p))
    if not ctx.ok:
        return out
    # (b) nothing enabled -> not modified
    if not methods and ctx.modified:
        out.append(Failure("empty method list but the file is rewritten"))
    if not ctx.modified:
        return out
    # (a) only configured replacement names, each wrapping an operation whose source is enabled with that name
    names = list(m.get("out_hook_names") or [])
    tags = list(m.get("out_hook_tags") or [])
    for x in m.get("in_hook_names") or []:
        if x in names:
            i = names.index(x); names.pop(i)
            if i < len(tags): tags.pop(i)
    for nm in names:
        if nm not in dsts:
            out.append(Failure("hook namespace dereferenced with %r which is not a configured replacement name" % nm))
    if len(names) == len(tags):
        for nm, tg in zip(names, tags):
            if tg in ("+", "+="):
                ok = any(x["operator"] and x["src"] == "plusOperator" and x["dst"] == nm for x in methods)
            elif tg == "Tpl":
                ok = any(x["operator"] and x["src"] == "tplOperator" and x["dst"] == nm for x in methods)
            elif tg == "?":
                ok = True
            else:
                first = [x for x in methods if not x["operator"] and x["src"] == tg][:1]
                ok = bool(first) and first[0]["dst"] == nm
            if not ok:
                out.append(Failure("hook %r wraps operation %r which the configuration does not map to that name" % (nm, tg)))
                break
    # the measure of the global theorem (C05_rewrite_only_configured_names) on the implementation's own output tree: members on
    # the hook namespace whose name is not a configured replacement name (inputs that mention the namespace themselves are left out)
    if "out_badnames" in m and m.get("in_ns_members") == 0:
        HYP["theorem_measure_evaluated"] += 1
        if m.get("prologue_badnames"):
            HYP["prologue_dereferences_unconfigured_name"] += 1
        elif m["out_badnames"] != 0:
            out.append(Failure("%d member expression(s) on the hook namespace carry a name that is not a configured replacement name (measure of the global theorem)" % m["out_badnames"]))
        if m.get("in_wf") and not m.get("in_optchain"):
            HYP["in_theorem_fragment"] += 1
    return out


HYP = collections.Counter()


def nontrivial(ctx):
    raw = ctx.case.get("config") or {}
    return ctx.modified or (isinstance(raw, dict) and len(raw) < 6)


def sample_info(ctx):
    return {"config_keys": sorted((ctx.case.get("config") or {}).keys()) if isinstance(ctx.case.get("config"), dict) else None,
            "status": ctx.met and ctx.met["status"]}


def run(O, P):
    results = E.run(O, P, __import__("checks.C05", fromlist=["x"]), "C05")
    O.coverage["global_theorem_measure"] = dict(HYP)
    # (c) locality: twin configurations give the same program (prologue aside) and the same metrics
    by_id = {case["id"]: (case, r, calls) for case, r, calls in results}
    pro_jobs = []
    twins = 0
    for cid, (case, r, calls) in by_id.items():
        if "twin_of" not in case or case["twin_of"] not in by_id:
            continue
        twins += 1
        _, r0, calls0 = by_id[case["twin_of"]]
        for (cin, cout, m), (cin0, cout0, m0) in zip(calls, calls0):
            if cout.get("outcome") != cout0.get("outcome"):
                O.violation("outcome changes with configuration entries that do not concern the program: %s vs %s" % (cout0.get("outcome"), cout.get("outcome")),
                            {"case": C.one_call_case(case), "base_config": by_id[case["twin_of"]][0]["config"]})
                continue
            if cout.get("outcome") != "ok":
                continue
            a, _ = strip_prologue(cout["result"]["content"]); b, _ = strip_prologue(cout0["result"]["content"])
            ma, mb = cout["result"]["metrics"], cout0["result"]["metrics"]
            if a != b or ma != mb:
                O.violation("the rewritten program changes with configuration entries whose names do not occur in it",
                            {"case": C.one_call_case(case), "base_config": by_id[case["twin_of"]][0]["config"],
                             "metrics": [mb, ma]})
    # (e) the prologue, executed
    seen = set()
    for case, r, calls in results:
        for cin, cout, m in calls:
            if C.is_modified(cout):
                _, pro = strip_prologue(cout["result"]["content"])
                dsts = [x["dst"] for x in (r.get("config") or {}).get("methods", [])]
                key = json.dumps(dsts)
                if pro is None:
                    O.violation("modified output without the prologue", {"case": C.one_call_case(case)})
                elif key not in seen and len(seen) < 400:
                    seen.add(key)
                    pro_jobs.append({"id": case["id"], "prologue": pro, "dsts": dsts, "case": C.one_call_case(case)})
    if pro_jobs:
        inp = "\n".join(json.dumps({k: j[k] for k in ("id", "prologue", "dsts")}) for j in pro_jobs) + "\n"
        p = subprocess.run(["node", os.path.join(vlib.ROOT, "tools", "prologue_check.js")], input=inp.encode(), stdout=subprocess.PIPE, stderr=subprocess.PIPE, timeout=600)
        res = [json.loads(l) for l in p.stdout.decode().split("\n") if l.strip()]
        if len(res) != len(pro_jobs):
            O.break_("prologue runner failed: " + p.stderr.decode()[-500:], {"correspondence": "prologue-execution"})
        for j, rr in zip(pro_jobs, res):
            O.evaluations += 1
            if not rr["ok"]:
                O.violation("prologue: " + rr["why"], {"case": j["case"], "prologue": j["prologue"], "dsts": j["dsts"]})
    O.coverage["twin_pairs"] = twins
    O.coverage["distinct_prologues_executed"] = len(pro_jobs)
    O.assumptions += ["replacement names are identifier names (WfCfg): anything else cannot be printed as _ddiast.<name> and makes the prologue template unparsable",
                      "the JS semantics of the prologue is exercised in Node realms, not proved",
                      "Rust's Unicode to_uppercase is modelled as ASCII upper-casing (verbosity spellings)"]
