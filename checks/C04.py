"""C04 -- every enabled operation inside function bodies and blocks is instrumented."""
from checks import engine as E
from checks.engine import Failure

WHAT = "model,hooks,classes,sites"
LEVEL = "proof"
RULE = ("regression corpus + repository test snippets + seeded random programs (gen/jsgen.py: every statement context x operand shape) "
        "under pooled configurations; required sites are computed from the INPUT tree by coq/Sites.v (extracted) and looked up among the "
        "hook calls of the implementation's output; non-trivial = at least one required site; distinct by source text")


def cases(O):
    return E.default_cases(O, "C04", n_quick=1000, n_thorough=18000)


def judge(ctx):
    if not ctx.ok or "missing_sites" not in ctx.m:
        return []
    out = []
    for s in ctx.m["missing_sites"]:
        out.append(Failure("required site not instrumented: %s at bytes %d..%d" % (s["what"], s["lo"], s["hi"]),
                           cls=s["class"] or None, info=s))
    return out


def nontrivial(ctx):
    return ctx.ok and (ctx.m.get("required_sites") or 0) > 0


def sample_info(ctx):
    return {"required_sites": ctx.m.get("required_sites"), "sample": ctx.m.get("required_sample")}


def run(O, P):
    E.run(O, P, __import__("checks.C04", fromlist=["x"]), "C04")
    O.assumptions += ["a site is identified by a source span that survives in the output (operation span; method-name token for calls)",
                      "readings of DESIGN 5.0: non-literal operand = not a literal-only sum; all-literal .call/.apply on a literal this is not required"]
