"""C03 -- each hook call receives the true result and the true operands, in order."""
from checks import engine as E
from checks.engine import Failure

WHAT = "model,hooks,classes,shapes,order,erase"
LEVEL = "proof"
RULE = ("regression corpus + repository test snippets + seeded random programs under pooled configurations; coq/Shapes.v (extracted) reads "
        "the expected operand list off the first argument of every hook call of the implementation's output and compares it with the "
        "remaining arguments; coq/Order.v reports an identifier operand that is left in place before a captured operand with effects; non-trivial = the output has at least one hook call; distinct by source text")


def cases(O):
    return E.default_cases(O, "C03", n_quick=1000, n_thorough=18000)


def judge(ctx):
    if not ctx.ok or not ctx.modified:
        return []
    out = []
    for s in sorted(set(ctx.m.get("out_shapes") or [])):
        out.append(Failure("hook arguments disagree with the operands of the wrapped operation: " + s, cls=s))
    # an identifier left in place is read -- by the operation and by the hook -- after a later operand was evaluated: the
    # hook is handed a later value than the one the original operation used (coq/Order.v)
    if "kept-identifier-before-effect" in (ctx.m.get("out_order") or []):
        out.append(Failure("an identifier operand left in place is followed by a captured operand with effects: it is read after them (a different value)"))
    # "no operand is evaluated an extra time to build the argument list": an effectful sub-expression of the input that occurs
    # more often in the output (coq/Erase.v dup_effects: by kind and source position) -- the hook is then handed the value of
    # another evaluation than the one the operation used
    dups = ctx.m.get("dup_effects") or []
    if dups:
        out.append(Failure("an effectful operand of the input occurs %d time(s) more in the output (evaluated again for the hook): %s" % (len(dups), str(dups[:2])[:160])))
    return out


def nontrivial(ctx):
    return ctx.modified and (ctx.m.get("out_hook_count") or 0) > 0


def sample_info(ctx):
    return {"hooks": ctx.m.get("out_hook_count"), "issues": ctx.m.get("out_shapes")}


def run(O, P):
    E.run(O, P, __import__("checks.C03", fromlist=["x"]), "C03")
    O.assumptions += ["syntactic half: arguments are the very operand nodes (literal, injected temporary or kept identifier); the run-time half "
                      "(values) additionally assumes that reading a temporary/identifier twice yields the same value (DESIGN 4.2 H1, H6)"]
