"""C13 -- the rewriter is total: it returns a result or an error, never panics or hangs."""
import collections, hashlib, json, os, random, re, subprocess, time
import vlib, framework as F
from checks import engine as E, common as C

LEVEL = "proof"
RULE = ("every inventoried partial operation (unwrap, indexing, get_unchecked; gen/extract_constants.py) must match the committed table "
        "panic_sites.json including a hash of its enclosing function (its guards); then the real rewriter runs under catch_unwind and a watchdog on: "
        "repository snippets, 150 real library files, seeded random programs, the shape catalogue, a mutation stream (token deletions / duplications / "
        "swaps / insertions, unbalanced brackets, random bytes, BOM, NUL, deep nesting, huge literals), hostile file names, source-map references "
        "(relative without parent folder, unreadable, huge, malformed, index maps, odd data URLs), hostile configurations; non-trivial = accepted or "
        "refused with a diagnostic after the parser (the repository's own code ran); distinct by (source, file name, configuration)")

TOKENS = ["(", ")", "{", "}", "[", "]", "?.", ".", "...", "+", "+=", "`", "${", "'", '"', ",", ";", "=>", "call", "apply", "prototype", "super", "import",
          "yield", "await", "new", "delete", "class", "function", "async", "=", "?", ":", "//# sourceMappingURL=", "/*", "*/", "\\", "\n", "\u2028", "\ufeff", "\0", "0x", "1e999", "#p", "@", "<!--"]
FILES = ["", "/", "a.js", "./a.js", "dir/", "..", ".", "C:\\x\\y.js", "x" * 3000 + ".js", "dir/ü ñ/файл.js", "a\0b.js", "/abs/dir/t.js", "//double//slash.js", "rel/../t.js", "t", ".hidden", "dir/t.js/"]


def mutate(rng, code):
    k = rng.randrange(9)
    if not code:
        return rng.choice(TOKENS)
    i = rng.randrange(len(code)); j = min(len(code), i + rng.randrange(1, 12))
    if k == 0: return code[:i] + code[j:]
    if k == 1: return code[:i] + code[i:j] * 2 + code[j:]
    if k == 2: return code[:i] + rng.choice(TOKENS) + code[i:]
    if k == 3:
        a = rng.randrange(len(code)); return code[:min(i, a)] + code[max(i, a):] + code[min(i, a):max(i, a)]
    if k == 4: return code[:i] + "".join(rng.choice(TOKENS) for _ in range(rng.randrange(1, 6))) + code[j:]
    if k == 5: return code[:i] + "".join(chr(rng.choice([rng.randrange(1, 128), rng.randrange(128, 0x800), rng.randrange(0x800, 0xd7ff)])) for _ in range(rng.randrange(1, 8))) + code[i:]
    if k == 6: return code[:i]
    if k == 7: return "\ufeff" + code
    return code.replace(rng.choice(["(", "{", "[", ")", "}", "]"]), rng.choice(["", "(", "{{"]), rng.randrange(1, 3))


def special_programs():
    deep = 120
    return [
        "(" * deep + "a + b" + ")" * deep,
        "function f(){ return " + "a + (" * 60 + "b" + ")" * 60 + "; }",
        "function f(){ return " + " + ".join("x%d()" % i for i in range(400)) + "; }",
        "function f(){ return a" + "?.b" * 150 + "?.trim(); }",
        "function f(){ return `" + "${a}" * 300 + "`; }",
        "function f(){ const s = '" + "x" * 200000 + "'; return s + a; }",
        "function f(){ " + "{ " * 100 + "a += b;" + " }" * 100 + " }",
        "const re = new RegExp;\nconst s = 'some literal text';", "{ new RegExp, new Foo, new (a.b), new a.b.c, new new X; require; new require; }", "new RegExp\n('a literal here')",
        "{ String.prototype.substring.apply(); }", "function f(){ return this.handler.call(); }", "{ o.p.apply(a); o.p.apply(a, b, c); o.p.call(...r); }",
        "{ ''.concat.call(); [].concat.apply(); (a).b.c.d.call(); super.x.call(); }", "class A extends B { m(){ super.trim.call(a); super.concat.apply(a, [b]); } }",
        "{ a?.(); a?.b?.(); a?.[b]?.trim?.(); (a?.b).trim(); new (a?.trim)(); }", "{ require(); new RegExp(); require(...a); new RegExp(...a); }",
        "function f(){ return a.concat.apply(a, [,,]); }", "x = `${}`", "function f(){ `${a}${`${b}${`${c}`}`}` }", "{ a.trim`x`; a?.trim`x`; }",
        # redundant parentheses, deep nesting of one construct, operands ending in a multi-byte character
        "{ ((o.p)) += x; }", "{ (((x))) += 'a'; }", "{ ((o[k])) += f(); (((o).p)) += 'v'; }", "{ ((((a)))) + ((b)); ((a.trim))(); ((a))?.trim(); }",
        "function f(){ return f2() + x\u00e9; }", "{ o.p += x\u4727; v += 1 + \u00e9; }", "{ `${f2()}${\u00e9}`; \u00e9.trim(); a.concat(\u00e9); }",
        "{ " + "(" * 60 + "a + b" + ")" * 60 + "; }", "{ a" + ".trim()" * 200 + "; }", "{ " + "a + " * 500 + "b; }", "{ x = " + "`${" * 40 + "a" + "}`" * 40 + "; }",
        "label: { break label; } a + b", "#!/usr/bin/env node\n{ a + b }", "{ a + b }\n//# sourceMappingURL=", "{ a + b }\n//# sourceMappingURL=data:", "{ a + b }\n//# sourceMappingURL=data:,",
        "{ a + b }\n//# sourceMappingURL=data:application/json;base64,", "{ a + b }\n//# sourceMappingURL=data:application/json;charset=utf-8;base64,e30=", "{ a + b }\n/*# sourceMappingURL=x.map */",
        "{ a + b }\n//# sourceMappingURL=\\\\?\\C:\\x.map", "{ a + b }\n//# sourceMappingURL=%00", "{ a + b }\n//#  sourceMappingURL=x.map  \t", "{ a + b }\n//# sourceMappingURL=é.map",
    ]


def multibyte_endings():
    """Every expression form ending in a multi-byte character, at every position where the rewriter (or the printer) takes the
    end of a span: swc's generator looks up `span.hi - 1` for closing tokens."""
    ends = ["\u00e9", "x\u4e2d", "a.\u00e9", "f(\u00e9)", "\u00e9 + \u00fc", "`${\u00e9}`", "\u00e9?.\u00fc", "'\u00e9'", "(\u00e9)", "[\u00e9]", "\u00e9 ? \u00fc : \u00f6",
            "b += \u00e9", "-\u00e9", "typeof \u00e9", "\u00e9.trim()", "a + \U0001d4b3", "new \u00e9", "\u00e9.\u00fc.trim().\u00f6", "\u00e9++", "\u00e9 = \u00fc"]
    ctxs = ["const f = (a) => %s;", "function f(a){ return %s; }", "{ x = `${%s}`; }", "{ g(a, %s); }", "{ o[%s] += a; }", "{ v += %s; }", "{ y = (%s); }", "{ y = [a, %s]; }",
            "{ y = { k: %s }; }", "function f(a = %s){ return a + 1; }", "class A { p = %s; m(){ return a + b; } }", "{ a.concat(%s); }", "{ (%s).trim(); }", "const f = (a) => a + %s;",
            "{ y = a + %s; }", "async (a) => await (a + %s);", "{ x = a?.trim(%s); }", "{ if (%s) a + b; else c + %s }", "{ for (const k of %s) a + k }", "{ String.prototype.concat.call(a, %s) }",
            "{ x = a.b?.c?.(%s).trim() }", "{ return_ = () => ({ k: a + %s }) }", "{ `${a}${%s}` }"]
    out = []
    for c in ctxs:
        for e in ends:
            out.append(c.replace("%s", e))
    return out


def smap_cases(rng, i):
    big = {"version": 3, "sources": ["o.ts"], "names": [], "mappings": ";".join("AAAA,CAAC" * 50 for _ in range(2000))}
    maps = {"ok.map": json.dumps({"version": 3, "sources": ["o.ts"], "names": [], "mappings": "AAAA"}), "big.map": json.dumps(big), "empty.map": "", "bin.map": "\x00\x01\x02\ufffd",
            "arr.map": "[1,2,3]", "neg.map": json.dumps({"version": 3, "sources": ["o.ts"], "names": [], "mappings": "AAAA;DDDD;AAgggggggggggC"}),
            "nosrc.map": json.dumps({"version": 3, "sources": [], "names": [], "mappings": "AAAA,CAAC"}), "idx.map": json.dumps({"version": 3, "sections": [{"offset": {"line": 0, "column": 0}, "map": {"version": 3, "sources": ["o.ts"], "names": [], "mappings": "AAAA"}}]}),
            "hermes.map": json.dumps({"version": 3, "sources": ["o.ts"], "names": [], "mappings": "AAAA", "x_facebook_sources": [[{"names": ["a"], "mappings": "AAA"}]]}),
            "srcidx.map": json.dumps({"version": 3, "sources": ["o.ts"], "names": ["n"], "mappings": "AEAAE"}),
            # segments without a source (one field) between ordinary ones
            "sourceless.map": json.dumps({"version": 3, "sources": ["o.ts"], "names": ["n"], "mappings": "A,IAAA,I,I,IAACA,I,I,I,IAAC,I,I,I;A"}),
            "sourceless2.map": json.dumps({"version": 3, "sources": ["o.ts", "p.ts"], "names": [], "mappings": "A,Q,Q,Q,Q"})}
    name = rng.choice(list(maps))
    file = rng.choice(FILES)
    url = rng.choice([name, "./" + name, "/abs/" + name, "sub/" + name, "../" + name,
                      # percent signs, escapes and multi-byte characters in the reference
                      "100%\u5b8c\u6210.js.map", "%\u00e9.map", "a%2", "%", "%zz.map", "%E4%BD%A0.map", "x%\U0001F600.map", "my%20bundle.js.map", "%2\u00e9", "\u00e9%41\u00e9.map",
                      name + "?v=%\u65e5", "%" + name, "a b/" + name, name + "#frag", "file:///abs/" + name, "\\\\server\\share\\" + name, "\u202e" + name, name + "\x00"])
    fs = {}
    for folder in ("", "dir", "/abs", "/abs/dir", "sub", "dir/sub", "/"):
        fs[os.path.join(folder, name)] = {"data": maps[name]} if rng.random() < 0.8 else {"err": "EACCES"}
    code = "function f(a,b){ return a + b.trim(); }\n//# sourceMappingURL=%s\n" % url
    cfg = vlib.default_config(chainSourceMap=rng.random() < 0.8, comments=rng.random() < 0.5)
    opts = {"ast": False}
    if rng.random() < 0.3:
        opts["no_parent"] = [file]
    if rng.random() < 0.3:
        opts["wasm_parent"] = True
    return {"id": "c13map-%d" % i, "config": cfg, "fs": fs, "calls": [{"code": code, "file": file}], "opts": opts}


def run_batches(O, cases, tag, timeout_s):
    """Run in shards under a watchdog; a shard that does not finish is bisected to the culprit."""
    import concurrent.futures
    shards = vlib.NJOBS
    chunks = [cases[i::shards] for i in range(shards)]
    def one(ic):
        i, chunk = ic
        if not chunk:
            return []
        try:
            return list(zip(chunk, vlib.run_harness(chunk, "%s-%d" % (tag, i), timeout=timeout_s)))
        except vlib.BuildError as e:
            return [("HANG-OR-CRASH", chunk, e.output[-300:])]
        except subprocess.TimeoutExpired:
            return [("HANG-OR-CRASH", chunk, "timeout after %ds" % timeout_s)]
    out = []
    with concurrent.futures.ThreadPoolExecutor(shards) as ex:
        for part in ex.map(one, enumerate(chunks)):
            out.extend(part)
    return out


def run(O, P):
    # 1. obligations: the inventory of partial operations against the committed, justified table
    cur = json.load(open(os.path.join(vlib.CACHE, "panic_sites.json")))
    table = json.load(open(os.path.join(vlib.ROOT, "panic_sites.json")))
    key = lambda s: (s["file"], s["fn"], s["text"], s["token"])
    tk = {key(s): s for s in table}
    ck = {key(s): s for s in cur}
    reopened = []
    for k, s in ck.items():
        if k not in tk:
            reopened.append("new or edited partial operation %s in %s::%s: %s" % (s["token"], s["file"], s["fn"], s["text"][:100]))
        elif tk[k].get("guard_ctx") != s.get("guard_ctx"):
            reopened.append("the function around the partial operation %s in %s::%s changed (its guard has to be re-examined)" % (s["token"], s["file"], s["fn"]))
        elif tk[k].get("why", "UNJUSTIFIED") == "UNJUSTIFIED":
            reopened.append("partial operation without a recorded justification: %s::%s %s" % (s["file"], s["fn"], s["token"]))
    O.coverage["partial_operations_inventoried"] = len(cur)
    O.coverage["partial_operation_obligations_open"] = len(reopened)
    # 2. search
    n = 250 if O.tier == "quick" else 12000
    import jsgen, catalogue
    cases = []
    for c in F.snippet_cases(opts={"ast": False}):
        cases.append(c)
    for i, p in enumerate(vlib.corpus_files()):
        try:
            code = open(p, encoding="utf-8").read()
        except Exception:
            continue
        cases.append({"id": "lib-%s" % os.path.basename(p), "config": vlib.default_config(comments=(i % 2 == 0), chainSourceMap=(i % 3 == 0)),
                      "calls": [{"code": code, "file": "node_modules/pkg/" + os.path.basename(p)}], "opts": {"ast": False}})
    for i, code in enumerate(special_programs()):
        cases.append({"id": "c13special-%d" % i, "config": vlib.default_config(chainSourceMap=True, comments=True), "calls": [{"code": code, "file": FILES[i % len(FILES)]}], "opts": {"ast": False}})
    for i, code in enumerate(multibyte_endings()):
        cases.append({"id": "c13mb-%d" % i, "config": vlib.default_config(chainSourceMap=(i % 2 == 0), comments=(i % 3 == 0)), "calls": [{"code": code, "file": FILES[i % len(FILES)]}], "opts": {"ast": False}})
    for i in range(n):
        rng = random.Random("%s/c13/%d" % (O.seed, i))
        base = jsgen.program("%s/c13" % O.seed, i) if i % 2 else catalogue.program("%s/c13" % O.seed, i)
        kind = i % 4
        if kind in (1, 2):
            for _ in range(rng.randrange(1, 5)):
                base = mutate(rng, base)
        elif kind == 3:
            base = "".join(rng.choice(TOKENS + ["a", "b", "o", " ", "trim", "concat"]) for _ in range(rng.randrange(1, 60)))
        cfg = F.config_variants(rng)
        if rng.random() < 0.2:
            cfg["csiMethods"] = cfg["csiMethods"] + [{"src": rng.choice(["", "a-b", "constructor", "__proto__", "ü", "call", "apply", "prototype", "x" * 500]), "dst": rng.choice([None, "", "a-b", "1x", "ü", "if", 'a: "aaaaaaaaaaaaaaaaaaa", b', "a: `t${1}`.concat('0123456789abc'), b", "x}; ({y", "a: /re/, b", "a, b"])}]
            cfg["literals"] = True
            cfg["csiMethods"] = [dict((k, v) for k, v in m.items() if v is not None) for m in cfg["csiMethods"]]
        if rng.random() < 0.15:
            cfg["localVarPrefix"] = rng.choice(["", "a-b", "ü", "1", "x" * 200, " "])
        cases.append({"id": "c13-%d" % i, "config": cfg, "calls": [{"code": base, "file": rng.choice(FILES)}], "opts": {"ast": False}})
    for i in range(n // 2):
        cases.append(smap_cases(random.Random("%s/c13map/%d" % (O.seed, i)), i))
    cases += E.finding_cases("C13", {"ast": False})
    t0 = time.time()
    results = run_batches(O, cases, "c13", 240 if O.tier == "quick" else 1200)
    outcomes = collections.Counter()
    pending_panics = []
    found = 0
    for item in results:
        if item[0] == "HANG-OR-CRASH":
            _, chunk, why = item
            # bisect sequentially with a short watchdog
            for c in chunk:
                try:
                    vlib.run_harness([c], "c13one", timeout=60)
                except Exception as e:
                    O.violation("the rewriter does not return (hang or crash of the process): %s" % str(e)[:200], {"case": c}); found += 1
                    break
            else:
                O.break_("a batch did not finish (%s) but every case of it finishes alone" % why, {"correspondence": "watchdog"})
            continue
        case, r = item
        O.evaluations += 1
        if "harness_panic" in r or "config_panic" in r:
            O.violation("panic while building the configuration: %s" % (r.get("harness_panic") or r.get("config_panic")), {"case": case}); found += 1
            continue
        call = r["calls"][0]
        oc = call.get("outcome")
        outcomes[oc + ("/" + call["result"]["metrics"]["status"] if oc == "ok" and call["result"].get("metrics") else "")] += 1
        if oc == "panic":
            pending_panics.append((case, call.get("panic", "")))
        elif oc == "error":
            if not (call.get("error") or "").strip():
                O.violation("an error without a diagnostic", {"case": case}); found += 1
            elif "Cancelling" in call["error"]:
                O.nontrivial.add(json.dumps(case["calls"][0])[:2000])
        elif oc == "ok":
            O.nontrivial.add(hashlib.sha1(json.dumps([case["calls"][0], case.get("config")], sort_keys=True).encode()).hexdigest())
            if len(O.samples) < 5 and case["id"].startswith(("c13map", "c13special")):
                O.samples.append({"id": case["id"], "file": case["calls"][0]["file"][:60], "code": case["calls"][0]["code"][:120], "outcome": oc})
    # panics raised inside a third-party crate while it rejects a program that is not valid JavaScript (V8 agrees it is a
    # syntax error) are a recorded finding; every other panic -- in the repository's own code, or on a valid program -- is a violation
    if pending_panics:
        known = [k for k in C.known_for("C13") if k.get("class") == "third-party-panic-on-invalid-program"]
        jobs = [{"id": "p%d" % i, "code": c["calls"][0]["code"], "kind": "script"} for i, (c, _) in enumerate(pending_panics)]
        jobs += [{"id": "m%d" % i, "code": c["calls"][0]["code"], "kind": "module"} for i, (c, _) in enumerate(pending_panics)]
        pr = vlib.run_node("node_parse.js", jobs) or []
        okmap = {x["id"]: x for x in pr}
        for i, (c, msg) in enumerate(pending_panics):
            third_party = "/registry/src/" in msg and "/swc_" in msg
            a, b = okmap.get("p%d" % i), okmap.get("m%d" % i)
            invalid = bool(a and b and not a["ok"] and not b["ok"] and "SyntaxError" in (a.get("error") or "") )
            if known and third_party and invalid:
                line = "%s: %s" % (known[0]["id"], known[0]["what"])
                if line not in O.known:
                    O.known.append(line)
                O.coverage["third_party_panics_on_invalid_programs"] = O.coverage.get("third_party_panics_on_invalid_programs", 0) + 1
            else:
                O.violation("panic: %s" % msg[:400], {"case": c, "v8_script": a, "v8_module": b}); found += 1
    for what in reopened[:3]:
        if found == 0:
            O.break_("C13 obligation re-opened: " + what, {"obligation": what, "table": "panic_sites.json"})
    O.coverage["cases"] = len(cases)
    O.coverage["outcome_distribution"] = dict(outcomes)
    O.coverage["search_wall_s"] = round(time.time() - t0, 1)
    O.assumptions += ["exhaustion by pathological nesting depth is out of scope (depth of generated inputs is bounded by ~150)",
                      "panics and hangs inside swc, the sourcemap crate and base64 are searched for, not excluded by proof; wasm-only glue (WasmFileReader, serde_wasm_bindgen) is not exercised",
                      "the justification of each partial operation in panic_sites.json is by inspection; three families are additionally modelled panic-faithfully and proved (coq/Partial.v)"]
