"""C14 -- literal collection reports exactly the input's string literals, truly located."""
import collections, random, re
import vlib, framework as F, sexp
from checks import engine as E, common as C
from checks.engine import Failure

WHAT = "model,hooks,literals"
LEVEL = "proof"
RULE = ("repository test snippets + seeded random programs + shape catalogue + literal-focused programs (boundary lengths 10/11/256/257 in bytes and "
        "in non-ASCII, require / new RegExp with literal and non-literal first arguments, repeated values, declarator and property initialisers, "
        "literals cloned into hook arguments, CRLF / multi-line layouts), literals on and off; the implementation's report is compared with the "
        "extracted Coq collector applied to the INPUT tree (value, line, column, name), and the input text at each reported position must be a quote; "
        "non-trivial = at least one literal reported; distinct by source text")

LITS = ["0123456789", "01234567890", "x" * 256, "y" * 257, "éééééé", "ééééé", "literal_literal", "another long literal", "a" * 11, "日本語日本語",
        # escape sequences: the length that counts is the VALUE's, the source text between the quotes is longer
        "a" * 250 + "\\n" * 6, "\\x41" * 70, "\\u00e9" * 60, "b" * 127 + "\\\\" + "c" * 128, "\\u{1F600}" * 3, "12345678\\n\\n", "123456789\\n\\t",
        "d" * 254 + "\\t\\t", "e" * 255 + "\\t\\t", "long line \\\n continued \\\n twice"]


def literal_program(rng):
    def q(s):
        return rng.choice(["'%s'", '"%s"']) % s
    L = []
    for _ in range(rng.randrange(3, 9)):
        v = q(rng.choice(LITS))
        L.append(rng.choice([
            "const c%d = %s;" % (rng.randrange(99), v),
            "let a%d = %s, b%d = x + %s;" % (rng.randrange(99), v, rng.randrange(99), v),
            "const o%d = { key: %s, 'str key': %s, [k]: %s, nested: { inner: %s } };" % (rng.randrange(99), v, v, v, v),
            "function f%d(a, b) { return a.concat(%s, b, %s); }" % (rng.randrange(99), v, v),
            "function g%d(a) { return %s + a + %s; }" % (rng.randrange(99), v, v),
            "const r%d = require(%s);" % (rng.randrange(99), v),
            "const r%d = require(%s + x, %s);" % (rng.randrange(99), v, v),
            "const r%d = require(...[%s]);" % (rng.randrange(99), v),
            "const e%d = new RegExp(%s, %s);" % (rng.randrange(99), v, v),
            # the two exclusions are require(<literal>..) as a CALL and new RegExp(<literal>..) as a NEW: the other pairings are not excluded
            "const ec%d = RegExp(%s, %s);" % (rng.randrange(99), v, v),
            "const nr%d = new require(%s);" % (rng.randrange(99), v),
            "const er%d = RegExp(42, %s) + require.resolve(%s);" % (rng.randrange(99), v, v),
            "const rx%d = o.require(%s) || new o.RegExp(%s);" % (rng.randrange(99), v, v),
            "const e%d = new RegExp(x, %s);" % (rng.randrange(99), v),
            "const e%d = new RegExp;" % rng.randrange(99),
            "foo(%s);" % v,
            # literals in less common expression positions (computed keys next to every kind of value, members, defaults, patterns...)
            "const p%d = { [%s]: %s, [%s + k]: k, [%s]: [%s], [`t${%s}`]: %s };" % (rng.randrange(99), v, v, v, v, v, v, v),
            "const q%d = { [%s]() { return %s; }, get [%s]() { return 1; }, m: (a = %s) => a, ...{ s: %s } };" % (rng.randrange(99), v, v, v, v, v),
            "class M%d { [%s] = %s; static [%s]() { return %s; } #priv = %s; static { z = %s; } }" % (rng.randrange(99), v, v, v, v, v, v),
            "function d%d(a = %s, { b = %s } = {}, [c = %s] = []) { return a; }" % (rng.randrange(99), v, v, v),
            "const { [%s]: alias%d = %s } = o;" % (v, rng.randrange(99), v),
            "o[%s] = o?.[%s] ?? tag`t${%s}`;" % (v, v, v),
            "switch (x) { case %s: y = %s; break; default: throw new Error(%s); }" % (v, v, v),
            "for (const e of [%s, %s]) { lbl: if (e === %s) break lbl; }" % (v, v, v),
            "x = typeof %s, y = void %s, z = (%s, %s);" % (v, v, v, v),
            "async function h%d() { await %s; for await (const c of g(%s)) yield_(%s); }" % (rng.randrange(99), v, v, v),
            "x = cond ? %s : `tpl ${%s}`;" % (v, v),
            "class K%d { p = %s; m() { return %s.trim(); } }" % (rng.randrange(99), v, v),
            "  \t  y = %s;" % v,
        ]))
    sep = rng.choice(["\n", "\r\n", "\n\n", " "])
    return sep.join(L) + "\n"


def cases(O):
    n = 500 if O.tier == "quick" else 9000
    def cfg(rng):
        c = F.config_variants(rng)
        c["literals"] = rng.random() < 0.85
        return c
    cs = E.default_cases(O, "C14", n_quick=n, n_thorough=n, cfg_fn=cfg)
    for i in range(n):
        rng = random.Random("%s/c14lit/%d" % (O.seed, i))
        c = cfg(rng) if rng.random() < 0.5 else vlib.default_config()
        cs.append({"id": "c14lit-%d" % i, "config": c, "calls": [{"code": literal_program(rng), "file": "lit.js"}], "opts": {}})
    return cs


def judge(ctx):
    if getattr(ctx, "is_model", False):
        return []
    if not ctx.ok:
        # no report at all: the call panics on an input the model accepts, with collection enabled
        if ctx.cout.get("outcome") == "panic" and ctx.cfg.get("literals") and ctx.m.get("model") == "ok":
            return [Failure("missing: the call panics (%s) on an input the model accepts: no literal report is produced" % str(ctx.cout.get("panic") or ctx.cout.get("error"))[:120])]
        return []
    res = ctx.cout["result"]
    rep = res.get("literalsResult")
    enabled = ctx.cfg.get("literals")
    if not enabled:
        return [Failure("disabled: a literal report is produced although collection is disabled")] if rep is not None else []
    if rep is None:
        return [Failure("missing: no literal report although collection is enabled")]
    if "in_literals" not in ctx.m:
        return []
    out = []
    if rep.get("file") != ctx.cin["file"]:
        out.append(Failure("file: report.file %r differs from the call's file" % rep.get("file")))
    txt = sexp.Text(ctx.cin["code"])
    code_b = ctx.cin["code"].encode("utf-8")
    exp = collections.Counter()
    def fix(x):
        try:
            return x.encode("latin-1").decode("utf-8") if isinstance(x, str) else x
        except Exception:
            return x
    for v, lo, hi, ident in ctx.m["in_literals"]:
        v, ident = fix(v), fix(ident)
        li, _ = txt.line_col(lo)
        col = len(code_b[txt.starts[li]:lo - 1].decode("utf-8", "replace"))
        exp[(v, li + 1, col + 1, ident if isinstance(ident, str) else None)] += 1
        if code_b[lo - 1:lo] not in (b"'", b'"'):
            out.append(Failure("position: the specification's literal at byte %d does not start with a quote" % lo))
    got = collections.Counter()
    values = [l["value"] for l in rep["literals"]]
    if len(values) != len(set(values)):
        out.append(Failure("grouping: a value appears in more than one group"))
    for l in rep["literals"]:
        for loc in l["locations"]:
            got[(l["value"], loc["line"], loc["column"], loc.get("ident"))] += 1
    if got != exp:
        extra = list((got - exp).items())[:2]
        missing = list((exp - got).items())[:2]
        out.append(Failure("entries: reported literals differ from the input's (extra %s, missing %s)" % (extra, missing)))
    ctx.info = {"literals": sum(exp.values())}
    return out


def nontrivial(ctx):
    return ctx.ok and len(ctx.m.get("in_literals") or []) > 0


def sample_info(ctx):
    return {"expected_entries": len(ctx.m.get("in_literals") or []), "sample": (ctx.m.get("in_literals") or [])[:2]}


def projection(ctx):
    # pi_C14: the collector applied to the model's output tree and to the input tree must agree (instrumentation neither adds nor removes)
    m = ctx.m
    if ctx.ok and "in_literals" in m and "model:out_literals" in m:
        k = lambda l: sorted((v, lo, hi, i if isinstance(i, str) else "") for v, lo, hi, i in l)
        if k(m["in_literals"]) != k(m["model:out_literals"]):
            return False, "the collector finds different literals in the model's output tree and in the input tree"
        if "out_literals" in m and k(m["in_literals"]) != k(m["out_literals"]):
            return False, "the collector finds different literals in the implementation's output tree and in the input tree"
    return True, ""


def run(O, P):
    E.run(O, P, __import__("checks.C14", fromlist=["x"]), "C14")
    O.assumptions += ["lengths are UTF-8 bytes, columns are code points from the line start (swc's CharPos), lines break at LF",
                      "the name is the declarator's identifier or an identifier key (DESIGN 5.0)"]
