"""C10 -- chained source map is the exact composition; trailer / comment handling is safe."""
import base64, collections, json, os, random, re
import vlib, framework as F, sexp
from checks import engine as E, common as C

WHAT = "model,hooks,roundtrip"
LEVEL = "proof"
RULE = ("seeded programs (random + catalogue) that end in a sourceMappingURL comment of every kind -- inline data URL, external file (relative / absolute), "
        "missing, unreadable, bad base64, bad JSON, index map, empty, two comments, look-alike string literals and regular expressions -- over generated "
        "original maps (several sources, names, sourceRoot, sparse lines) x chaining on/off x comments on/off; the trailer is decoded with the extracted "
        "VLQ decoder and compared with `chain R O` computed by the extracted Coq function from the rewrite map R and the original map O as generated "
        "(not as re-serialised by the sourcemap crate); non-trivial = modified result with chaining on and a usable original map; distinct by source text")
TRAILER = "\n//# sourceMappingURL=data:application/json;base64,"
B64 = "ABCDEFGHIJKLMNOPQRSTUVWXYZabcdefghijklmnopqrstuvwxyz0123456789+/"


def vlq(v):
    n = (-v << 1) | 1 if v < 0 else v << 1
    out = ""
    while True:
        d = n & 31
        n >>= 5
        if n:
            d |= 32
        out += B64[d]
        if not n:
            return out


def gen_original_map(rng, code):
    """A plausible original map for `code`: tokens at a few columns of each line."""
    lines = code.split("\n")
    nsrc = rng.choice([1, 1, 2, 3])
    sources = ["orig/file%d.ts" % i for i in range(nsrc)]
    if rng.random() < 0.2:
        sources[0] = "/abs/orig.ts"
    names = ["n%d" % i for i in range(rng.choice([0, 2, 4]))]
    segs = []
    prev = [0, 0, 0, 0, 0]
    out_lines = []
    toks = []
    sourceless = rng.random() < 0.3
    for li, line in enumerate(lines):
        if rng.random() < 0.15:
            out_lines.append("")
            continue
        cols = sorted(set(rng.randrange(0, max(1, len(line))) for _ in range(rng.choice([1, 2, 4]))))
        if rng.random() < 0.7:
            cols = sorted(set([0] + cols))
        parts = []
        pc = 0
        for c in cols:
            if sourceless and rng.random() < 0.25:
                # a segment without a source (one field): the generated column only
                parts.append(vlq(c - pc))
                pc = c
                continue
            si = rng.randrange(nsrc)
            sl = rng.randrange(0, 200)
            sc = rng.randrange(0, 80)
            fields = [c - pc, si - prev[1], sl - prev[2], sc - prev[3]]
            pc = c
            prev[1], prev[2], prev[3] = si, sl, sc
            ni = None
            if names and rng.random() < 0.4:
                ni = rng.randrange(len(names))
                fields.append(ni - prev[4])
                prev[4] = ni
            parts.append("".join(vlq(x) for x in fields))
            toks.append((li, c, si, sl, sc, ni))
        out_lines.append(",".join(parts))
    mp = {"version": 3, "file": "gen.js", "sources": sources, "names": names, "mappings": ";".join(out_lines)}
    r = rng.random()
    if r < 0.3:
        mp["sourceRoot"] = rng.choice(["", "webpack://app/src/", "root"])
    if rng.random() < 0.2:
        mp["sourcesContent"] = [None] * nsrc
    return mp, toks


def resolve_source(mp, si):
    s = mp["sources"][si]
    root = mp.get("sourceRoot") or ""
    if root and not (s.startswith("/") or s.startswith("http:") or s.startswith("https:")):
        return root.rstrip("/") + "/" + s
    return s


KINDS = ["inline", "inline", "rel", "rel", "abs", "missing", "unreadable", "badb64", "badjson", "index", "empty", "none", "two", "lookalike"]


def cases(O):
    n = 500 if O.tier == "quick" else 9000
    import jsgen, catalogue
    cs = []
    for i in range(n):
        rng = random.Random("%s/c10/%d" % (O.seed, i))
        code = jsgen.program("%s/c10" % O.seed, i) if i % 2 else catalogue.program("%s/c10" % O.seed, i)
        code = re.sub(r";\s", ";\n", code)
        kind = KINDS[i % len(KINDS)]
        file = rng.choice(["dir/sub/t.js", "t.js", "/abs/dir/t.js"])
        folder = os.path.dirname(file)
        fs = {}
        omap, otoks = gen_original_map(rng, code)
        usable = False
        tail = ""
        if kind == "lookalike":
            code = "const lk1 = '# sourceMappingURL=x.js.map', lk2 = \"//# sourceMappingURL=x.js.map\", lk3 = /# sourceMappingURL=x.js.map/;\n" + code
            omap, otoks = gen_original_map(rng, code)
        if kind in ("inline", "two", "lookalike"):
            tail = "//# sourceMappingURL=data:application/json;base64," + base64.b64encode(json.dumps(omap).encode()).decode()
            usable = True
            if kind == "lookalike":
                tail = "//# sourceMappingURL=x.js.map"
                fs[os.path.join(folder, "x.js.map")] = {"data": json.dumps(omap)}
            if kind == "two":
                code = code + rng.choice(["", "", " // end", " /* c */"]) + "\n//# sourceMappingURL=earlier-missing.map"
        elif kind == "rel":
            tail = "//# sourceMappingURL=maps/t.js.map"
            fs[os.path.join(folder, "maps/t.js.map")] = {"data": json.dumps(omap)}
            usable = True
        elif kind == "abs":
            tail = "//# sourceMappingURL=/maps/t.js.map"
            fs["/maps/t.js.map"] = {"data": json.dumps(omap)}
            usable = True
        elif kind == "missing":
            tail = "//# sourceMappingURL=nowhere.map"
        elif kind == "unreadable":
            tail = "//# sourceMappingURL=locked.map"
            fs[os.path.join(folder, "locked.map")] = {"err": "permission denied"}
        elif kind == "badb64":
            tail = "//# sourceMappingURL=data:application/json;base64,@@@not-base64@@@"
        elif kind == "badjson":
            tail = "//# sourceMappingURL=bad.map"
            fs[os.path.join(folder, "bad.map")] = {"data": "{ this is not json"}
        elif kind == "index":
            tail = "//# sourceMappingURL=idx.map"
            fs[os.path.join(folder, "idx.map")] = {"data": json.dumps({"version": 3, "sections": [{"offset": {"line": 0, "column": 0}, "map": omap}]})}
        elif kind == "empty":
            tail = "//# sourceMappingURL="
        # the reference written as a block comment, or with blanks after the URL: the URL is what stands between `=` and the
        # trailing white space
        if tail.startswith("//# sourceMappingURL=") and kind in ("inline", "rel", "abs", "lookalike", "missing", "index") and i % 5 == 1:
            url = tail[len("//# sourceMappingURL="):]
            tail = rng.choice(["/*# sourceMappingURL=%s */", "//# sourceMappingURL=%s \t", "//#  sourceMappingURL=%s".replace("#  ", "# "), "/*# sourceMappingURL=%s\n*/", "//# sourceMappingURL=%s  "]) % url
        # other comments around the reference (swc keeps every comment that follows the same token in one entry of its store):
        # they are text of the program like any other
        before, after = "", ""
        if tail and i % 2 == 0 and kind != "two":
            before = rng.choice(["", " // end of module f", " /* public api */", "\n// end of module f", "\n/* eslint-disable */\n// two", " /*# not a sourceMappingURL */"])
            after = rng.choice(["", "", "\n// generated by tsc 4.2", "\n/* eof */"])
        full = code + before + ("\n" + tail + after + "\n" if tail else "\n")
        lines_ = code.split("\n")
        if tail and len(lines_) > 2 and i % 3 == 0 and kind != "two":     # ("two": the other, unusable reference must stay the earlier one)
            # the reference does not have to be the last thing in the file: bundlers leave it in the middle, code follows
            j = rng.randrange(1, len(lines_) - 1)
            if not any("`" in l for l in lines_):      # never cut a multi-line template literal
                # on the line of the token it trails (a comment on a line of its own belongs to the NEXT token, as a leading
                # comment: the rewriter does not take it for the reference and rightly leaves it alone)
                mid = rng.choice(["", "", "/* kept */ ", "/* a */ /* b */"]) if "//" not in lines_[j - 1] else ""
                full = "\n".join(lines_[:j]) + " " + mid + tail + "\n" + "\n".join(lines_[j:]) + "\n"
        cfg = F.config_variants(rng) if rng.random() < 0.3 else vlib.default_config()
        cfg["chainSourceMap"] = rng.random() < 0.75
        cfg["comments"] = rng.random() < 0.5
        calls = [{"code": full, "file": file}]
        if tail and cfg["comments"] and len(tail) > len("//# sourceMappingURL=") and full.count(tail) == 1:
            # the twin: the same file without the reference(s); apart from the map, the rewriter has to produce the same text for both
            calls.append({"code": full.replace(tail, "").replace("\n//# sourceMappingURL=earlier-missing.map", ""), "file": file, "twin": True})
        cs.append({"id": "c10-%d-%s" % (i, kind), "config": cfg, "fs": fs, "calls": calls,
                   "opts": {"pieces": True, "reparse": True}, "kind": kind, "usable": usable, "omap": omap, "tail": tail})
    cs += E.finding_cases("C10", {"pieces": True, "reparse": True})
    return cs


def run(O, P):
    cs = cases(O)
    results = C.run_cases(cs, WHAT, "c10")
    blocks, infos = [], []
    kinds = collections.Counter()
    for case, r, calls in results:
        twin_body = None
        if len(calls) > 1 and C.is_modified(calls[1][1]):
            twin_body = calls[1][1]["result"]["content"].split(TRAILER)[0]
        for cin, cout, m in calls:
            if cin.get("twin"):
                continue
            O.evaluations += 1
            def bad(what, **extra):
                O.violation(what, dict({"case": {k: v for k, v in C.one_call_case(case).items() if k not in ("omap",)}}, **extra))
            if not C.is_modified(cout):
                continue
            case.setdefault("kind", "finding")
            kinds[case["kind"]] += 1
            content = cout["result"]["content"]
            pieces = cout.get("pieces") or {}
            parts = content.split(TRAILER)
            if len(parts) != 2 or "\n" in parts[1].strip("\n") or not content.endswith(parts[1]):
                bad("content does not end with exactly one inline sourceMappingURL trailer (%d found)" % (len(parts) - 1)); continue
            try:
                mtxt = base64.b64decode(parts[1].strip(), validate=True).decode("utf-8")
                M = json.loads(mtxt)
            except Exception as e:
                bad("trailer does not decode: %s" % e); continue
            cfg = r["config"]
            body = parts[0]
            # text: nothing but the superseded comment may differ from what the printer produced
            if "code" in pieces and body != pieces["code"]:
                bad("the program text was edited after printing", printed=pieces["code"][-300:], content=body[-300:]); continue
            if cfg["comments"]:
                stray = [l for l in body.split("\n") if re.match(r"\s*//\s*# sourceMappingURL=", l) or l.strip() == "//"]
                if stray and case.get("kind") != "finding":
                    bad("with comments kept the superseded sourceMappingURL comment is still in the content: %r" % stray[0][:80]); continue
                # wherever the reference stood (also behind a statement on the same line): exactly that one occurrence of its text goes
                tl = case.get("tail")
                if tl and len(tl) > len("//# sourceMappingURL=") and body.count(tl) != cin["code"].count(tl) - 1:
                    bad("with comments kept the text of the superseded sourceMappingURL comment occurs %d time(s) in the content, %d in the input (the comment itself must go, look-alike literals must stay)"
                        % (body.count(tl), cin["code"].count(tl))); continue
                if twin_body is not None and body != twin_body:
                    k = next((i for i, (x, y) in enumerate(zip(body, twin_body)) if x != y), min(len(body), len(twin_body)))
                    bad("with comments kept, the text of the content differs from what the same file without the sourceMappingURL comment gives (other text than that comment was altered): ...%r vs ...%r"
                        % (body[max(0, k - 60):k + 60], twin_body[max(0, k - 60):k + 60])); continue
                if twin_body is not None:
                    O.coverage["twin_text_comparisons"] = O.coverage.get("twin_text_comparisons", 0) + 1
            if m and m.get("roundtrip_ok") is False:
                bad("the content does not re-parse to the printed tree (a literal or regular expression was altered?): %s / %s" % (
                    (m.get("roundtrip_diff_out") or "")[:160], (m.get("roundtrip_diff_reparsed") or "")[:160])); continue
            chain_expected = cfg["chainSourceMap"] and case.get("usable")
            if not chain_expected:
                if "sourceMap" in pieces and mtxt != pieces["sourceMap"] and case.get("kind") != "finding":
                    bad("no usable original map / chaining off, but the embedded map is not the plain rewrite map"); 
                continue
            R = json.loads(pieces["sourceMap"])
            Omap = case["omap"]
            L = ["BEGIN\t%d" % len(infos), "MAP\tR\t" + vlib.esc(R["mappings"]), "MAP\tO\t" + vlib.esc(Omap["mappings"]),
                 "MAP\tM\t" + vlib.esc(M.get("mappings", "")), "RUN\tdecode,chain", "END"]
            blocks.append("\n".join(L) + "\n")
            infos.append((case, cin, M, Omap))
    if blocks:
        shards = min(vlib.NJOBS, max(1, len(blocks) // 10))
        import concurrent.futures
        chunks = [list(range(i, len(blocks), shards)) for i in range(shards)]
        with concurrent.futures.ThreadPoolExecutor(shards) as ex:
            parts = list(ex.map(lambda ic: vlib.run_driver_text("".join(blocks[j] for j in ic[1]), "c10-%d" % ic[0]), enumerate(chunks)))
        for idxs, part in zip(chunks, parts):
            for j, d in zip(idxs, part):
                case, cin, M, Omap = infos[j]
                exp, got = d.get("chain"), d.get("map_M")
                def bad(what, **extra):
                    O.violation(what, dict({"case": {k: v for k, v in C.one_call_case(case).items() if k not in ("omap",)}}, **extra))
                if not isinstance(exp, list) or not isinstance(got, list):
                    bad("maps do not decode with the extracted decoder (chain %s, embedded %s)" % (type(exp).__name__, type(got).__name__)); continue
                def norm(toks, mp):
                    out = []
                    for t in toks:
                        if len(t) >= 5:
                            name = mp["names"][t[5]] if len(t) > 5 and 0 <= t[5] < len(mp.get("names", [])) else None
                            src = resolve_source(mp, t[2]) if 0 <= t[2] < len(mp["sources"]) else "?"
                            out.append((t[0], t[1], src, t[3], t[4], name))
                    return out
                def dedup(l):   # the sourcemap encoder skips a token identical to its predecessor
                    return [x for i, x in enumerate(l) if i == 0 or x != l[i - 1]]
                a, b = dedup(norm(exp, Omap)), dedup(norm(got, M))
                if a != b:
                    k = next((i for i, (x, y) in enumerate(zip(a, b)) if x != y), min(len(a), len(b)))
                    bad("the embedded map is not the composition of the rewrite map with the original map: token %d expected %s, embedded %s (%d vs %d tokens)"
                        % (k, a[k] if k < len(a) else None, b[k] if k < len(b) else None, len(a), len(b)))
                    continue
                if a:
                    O.nontrivial.add(cin["code"])
                    if len(O.samples) < 5:
                        O.samples.append({"id": case["id"], "kind": case.get("kind"), "tokens": len(a), "first": a[0], "sources": M.get("sources")})
    O.coverage["cases"] = len(cs)
    O.coverage["modified_by_comment_kind"] = dict(kinds)
    O.coverage["composition_checks"] = len(blocks)
    O.assumptions += ["the original map is read from its generated JSON, the rewrite map and the embedded map from the implementation; all three are decoded by the extracted decoder",
                      "sourcemap crate: lookup_token = greatest token at or before (line, column) over the whole map; sourceRoot is applied to relative sources (exercised, not proved)",
                      "ties between tokens with equal generated position are not generated"]
