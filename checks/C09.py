"""C09 -- the embedded source map resolves rewritten positions to the right original place."""
import base64, collections, json, os, random, re
import vlib, framework as F, sexp
from checks import engine as E, common as C
from checks.engine import Failure

WHAT = "model,hooks"
LEVEL = "proof"
RULE = ("repository test snippets + seeded random programs + shape catalogue (multi-line, CRLF and non-ASCII variants included), default and "
        "pooled configurations, comments on/off; for every modified result the trailer is decoded with the EXTRACTED base64-VLQ decoder "
        "(coq/SrcMap.v, independent of the sourcemap crate and of node_source_map.js); every identifier of the printed content is aligned with the "
        "identifier of the output tree it prints (re-parsed content vs output tree, same pre-order) and its mapping is looked up with the extracted "
        "glb lookup and binary search; non-trivial = modified result with at least one aligned identifier; distinct by source text")
TRAILER = "\n//# sourceMappingURL=data:application/json;base64,"


def layout_variants(code, rng):
    r = rng.random()
    if r < 0.25:
        return re.sub(r";\s", ";\n", code)
    if r < 0.4:
        return re.sub(r";\s", ";\r\n", code)
    if r < 0.5:
        return "// café ☃ \U0001F600\n" + code.replace("'lit'", "'lït \U0001F600'")
    if r < 0.6:
        return code.replace("{ ", "{\n    ").replace(" + ", "\n  +\n  ")
    return code


def multi_statement(seed, i):
    """A function whose statements each stand on their own line(s): a position taken from the wrong statement shows as a wrong line."""
    import catalogue
    rng = random.Random("%s/c09multi/%d" % (seed, i))
    forms = catalogue.operations(rng)
    def op():
        e = rng.choice(forms)()
        return e.replace("super.x", "o.x")
    body = []
    for j in range(rng.randrange(3, 7)):
        body.append(rng.choice([
            lambda: "x = %s;" % op(),
            lambda: "(%s);" % op() if op().startswith(("{", "function", "class", "`")) else "%s;" % op(),
            lambda: "%s += %s;" % (rng.choice(["this.a.b", "o.list[k].t", "q(o)[k]", "o[k + 1]", "o.p", "x", "o[i++].v", "(o.p.q)"]), rng.choice(["x", "f2()", "'lit'", "a + b"])),
            lambda: "log(a, b, %s);" % rng.choice(["k", "o.p", "'who'", "r"]),
            lambda: "const v%d = %s;" % (j, op()),
            lambda: "if (%s) {\n    y = %s;\n  }" % (op(), op()),
            lambda: "this.v%d = %s;" % (j, rng.choice(["this.opts?.prefix.trim()", "this?.p.substring(1)", "'lit'?.trim()", "this.a?.b.concat('x', 'y')", op()])),
            # a chain on a literal receiver is left alone, the call that continues it is instrumented
            lambda: rng.choice(["'abcdefghijkl'?.slice().substring(k);", "x = \"lit\"?.trim().concat(k)?.call();", "this.w = 'lit'?.p.q.trim();", "y = 'lit'?.slice(1).trim().concat(a, b);"]),
            lambda: "// comment %d" % j,
            lambda: "",
        ])())
    body.append("return %s;" % rng.choice(["this.opts?.prefix.trim()", "this?.p.trim()", op(), "x"]))
    # the header may spread over several lines: what is injected at the start of the body belongs to the body's lines
    head, tail = rng.choice([
        ("function f(a,b,o,k,r,q,x,y,z,i,arr){", "}"),
        ("function f(a,b,o,k,r,q,x,y,z,i,arr){", "}"),
        ("function f(a,b,o,\n  k,r,q,\n  x,y,z,i,arr\n) {", "}"),
        ("const f = function (\n  a,b,o,k,r,q,x,y,z,i,arr\n)\n{", "};"),
        ("class C {\n  m(\n    a,b,o,k,r,q,x,y,z,i,arr\n  )\n  {", "}\n}"),
        ("const f = (\n  a,b,o,k,r,q,x,y,z,i,arr\n) =>\n{", "};"),
        ("const o2 = {\n  async *m(a,b,o,k,r,q,\n    x,y,z,i,arr)\n  {", "}\n};"),
    ])
    return head + "\n  " + "\n  ".join(body) + "\n" + tail + "\n"


def cases(O):
    n = 400 if O.tier == "quick" else 9000
    opts = {"reparse": True}
    cs = F.regress_cases(opts=opts) + F.snippet_cases(opts=opts)
    gen = F.generated_cases(O.seed, n, "c09", cfg_fn=F.config_variants, opts=opts) + E.catalogue_cases(O.seed, n, "c09", cfg_fn=F.config_variants, opts=opts)
    cs += [{"id": "c09multi-%d" % i, "config": vlib.default_config(), "calls": [{"code": multi_statement(O.seed, i), "file": "multi.js"}], "opts": dict(opts)}
           for i in range(n)]
    for i, c in enumerate(gen):
        rng = random.Random("%s/c09lay/%d" % (O.seed, i))
        c["calls"][0]["code"] = layout_variants(c["calls"][0]["code"], rng)
        c["calls"][0]["file"] = rng.choice(["dir/sub/test.js", "test.js", "/abs/path/file.js", "a b/cé.js", "/srv/lib/legacy\\greet.js", "rel\\win.js",
                                         # bytes whose 6-bit groups are 62 / 63 at every alignment: the trailer is STANDARD base64 (+ and /), which strict decoders insist on
                                         "/srv/app/routes/a~b.js", "what?.js", "o\u00e9.js", "~a.js", "ab~.js", "x>y?z~.js", "\u00ff\u00ff\u00ff.js", "a/~~~/???.js"] + [f for f in E.FILE_NAMES if os.path.basename(f) not in ("", "..")])
    # the multi-statement programs (a statement spread over several input lines, printed on one) under the special names too
    for i, c in enumerate(cs):
        if c["id"].startswith("c09multi-") and i % 4 == 0:
            names = [f for f in E.FILE_NAMES if os.path.basename(f) not in ("", "..")]
            c["calls"][0]["file"] = names[(i // 4) % len(names)]
    cs += gen + E.finding_cases("C09", opts)
    return cs


def decode_trailer(content):
    parts = content.split(TRAILER)
    if len(parts) != 2:
        return None, "content has %d inline trailers" % (len(parts) - 1)
    try:
        return json.loads(base64.b64decode(parts[1].strip(), validate=True)), None
    except Exception as e:
        return None, "trailer does not decode: %s" % e


def analyse(cases, results):
    """Second pass: decode and look up through the extracted functions (one driver batch)."""
    blocks, meta = [], []
    for case, r, calls in results:
        for cin, cout, m in calls:
            if not C.is_modified(cout):
                continue
            content = cout["result"]["content"]
            mp, err = decode_trailer(content)
            info = {"case": case, "cin": cin, "cout": cout, "map": mp, "err": err, "queries": [], "idents": []}
            meta.append(info)
            if mp is None or "ast_out" not in cout or "ast_reparsed" not in cout:
                continue
            body = content.split(TRAILER)[0]
            try:
                out_ids = sexp.identifiers(sexp.parse(cout["ast_out"]))
                rep_ids = sexp.identifiers(sexp.parse(cout["ast_reparsed"]))
            except Exception as e:
                info["err"] = "cannot read trees: %s" % e
                continue
            info["aligned"] = len(out_ids) == len(rep_ids) and all(a["sym"] == b["sym"] for a, b in zip(out_ids, rep_ids))
            if not info["aligned"]:
                continue
            tgen = sexp.Text(body)
            L = ["BEGIN\t%d" % (len(meta) - 1), "MAP\tM\t" + vlib.esc(mp.get("mappings", ""))]
            for a, b in zip(out_ids, rep_ids):
                gl, gc = tgen.line_col(b["lo"])
                info["queries"].append((gl, gc))
                info["idents"].append(a)
                L.append("QUERY\t%d\t%d" % (gl, gc))
            L += ["RUN\tdecode,lookup", "END"]
            blocks.append(("\n".join(L) + "\n", len(meta) - 1))
    out = {}
    if blocks:
        shards = min(vlib.NJOBS, max(1, len(blocks) // 20))
        import concurrent.futures
        chunks = [blocks[i::shards] for i in range(shards)]
        with concurrent.futures.ThreadPoolExecutor(shards) as ex:
            parts = list(ex.map(lambda ic: vlib.run_driver_text("".join(b for b, _ in ic[1]), "c09-%d" % ic[0]), enumerate(chunks)))
        for chunk, part in zip(chunks, parts):
            for (b, mi), res in zip(chunk, part):
                out[mi] = res
    return meta, out


def run(O, P):
    cs = cases(O)
    results = C.run_cases(cs, WHAT, "c09")
    meta, dec = analyse(cs, results)
    stats = collections.Counter()
    for mi, info in enumerate(meta):
        O.evaluations += 1
        case, cin, cout = info["case"], info["cin"], info["cout"]
        def bad(what, **extra):
            O.violation(what, dict({"case": C.one_call_case(case)}, **extra))
        if info["err"]:
            bad(info["err"]); continue
        mp = info["map"]
        if mp.get("version") != 3:
            bad("embedded map version is %r" % mp.get("version")); continue
        base = os.path.basename(cin["file"])
        if base and mp.get("sources") != [base]:
            bad("sources %r, expected [%r]" % (mp.get("sources"), base)); continue
        if mi not in dec:
            stats["unaligned" if info.get("aligned") is False else "no-trees"] += 1
            continue
        d = dec[mi]
        toks = d.get("map_M")
        if not isinstance(toks, list):
            bad("mappings do not decode with the extracted VLQ decoder"); continue
        tin = sexp.Text(cin["code"])
        fails = []
        for t in toks:
            if len(t) < 5:
                continue
            if t[2] != 0 or t[3] < 0 or t[4] < 0 or t[3] >= tin.nlines() or t[4] > tin.line_len16(t[3]):
                fails.append("mapping %s points outside the input text (%d lines)" % (t, tin.nlines()))
                break
        looked = d.get("lookups")
        copied = injected = 0
        if isinstance(looked, list) and len(looked) == len(info["idents"]) and not fails:
            for idn, q, res in zip(info["idents"], info["queries"], looked):
                if len(res) == 2 and (res[0] == "none") != (res[1] == "none") or (len(res) == 2 and res[0] != "none" and res[0][:2] != res[1][:2]):
                    fails.append("glb lookup and the binary search disagree at generated %s: %s" % (q, res)); break
                tok = res[0] if res and res[0] != "none" else None
                if idn["lo"] > 0:
                    copied += 1
                    ol, oc = tin.line_col(idn["lo"])
                    if tok is None or len(tok) < 5 or tok[:2] != [q[0], q[1]] or (tok[3], tok[4]) != (ol, oc):
                        fails.append("identifier %r copied from input %d:%d is printed at %d:%d whose mapping is %s" % (idn["sym"], ol, oc, q[0], q[1], tok))
                        break
                elif idn["stmt"] or idn["block"]:
                    injected += 1
                    span = idn["stmt"] or idn["block"]
                    # an injected let belongs to its block
                    if tok is None or len(tok) < 5:
                        fails.append("injected identifier %r at generated %d:%d resolves to no original position" % (idn["sym"], q[0], q[1])); break
                    l0, _ = tin.line_col(span[0]); l1, _ = tin.line_col(max(span[0], span[1] - 1))
                    bl = idn["block"]
                    if bl:
                        b0, _ = tin.line_col(bl[0]); b1, _ = tin.line_col(max(bl[0], bl[1] - 1))
                    else:
                        b0, b1 = l0, l1
                    if not (min(l0, b0) <= tok[3] <= max(l1, b1)) or (idn["stmt"] and not (l0 <= tok[3] <= l1) and not (bl and b0 <= tok[3] <= b1 and idn["stmt"] is None)):
                        if not (l0 <= tok[3] <= l1):
                            fails.append("injected identifier %r of the statement on lines %d..%d resolves to line %d" % (idn["sym"], l0, l1, tok[3])); break
        if fails:
            bad(fails[0], map_sources=mp.get("sources"))
            continue
        stats["copied_identifiers"] += copied
        stats["injected_identifiers"] += injected
        if copied:
            O.nontrivial.add(cin["code"])
            if len(O.samples) < 5:
                O.samples.append({"id": case["id"], "code": cin["code"][:200], "tokens": len(toks), "copied_identifiers": copied, "injected_identifiers": injected})
    O.coverage["cases"] = len(cs)
    O.coverage["modified_results"] = len(meta)
    O.coverage.update(dict(stats))
    O.assumptions += ["positions of printed identifiers are taken from swc's re-parse of the content; the output tree and the re-parsed tree are aligned by their identifier sequences (cases where they do not align are counted, not judged)",
                      "columns are UTF-16 code units, lines break at LF",
                      "swc's printer decides where mappings are emitted (printer contract, DESIGN C09): exercised, not proved"]
