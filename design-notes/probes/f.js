function f(a,b){ return a + b; } //# sourceMappingURL=data:application/json;base64,eyJ2ZXJzaW9uIjogMywgInNvdXJjZXMiOiBbIm9uZS50cyJdLCAibmFtZXMiOiBbXSwgIm1hcHBpbmdzIjogIkFBQUE7QUFDQTtBQUNBO0FBQ0E7QUFDQSJ9
function g(a,b){ const s = '# sourceMappingURL=zzz.map'; return a + b; } //# sourceMappingURL=data:application/json;base64,eyJ2ZXJzaW9uIjogMywgInNvdXJjZXMiOiBbInR3by50cyJdLCAibmFtZXMiOiBbXSwgIm1hcHBpbmdzIjogIkFBQUE7QUFDQTtBQUNBO0FBQ0E7QUFDQSJ9
var z = 1; //# sourceMappingURL=zzz.map
