function f(a, b, c) {
  const r1 = 'a' + 'b' + c;
  const r2 = a + ('x' + 'y');
  const r3 = f().substring.call(g(), 1);
  const r4 = String.prototype.substring.apply(a, [b, , c]);
  const r5 = String.prototype.concat.apply(a, ...rest);
  const r6 = a?.trim(b?.c);
  const r7 = a.b?.trim?.();
  const r8 = a?.b.trim().slice(1);
  o().p += s;
  arr[i++] += s;
  x += y;
  const r9 = `${a}${b()}`;
  const r10 = `x${1}${a}`;
  const r11 = alone(a, b);
  const r12 = a.trim?.();
  delete (a + b).x;
  const r13 = typeof (a + b);
  const r14 = (a, b).trim();
  const r15 = [a, b].concat(c);
  const r16 = this.trim();
  const r17 = a[b].trim();
  const r18 = a.b.c.trim();
  const r19 = a.prototype.trim();
  const r20 = 'lit'.trim();
  const r21 = 'lit'.concat(a);
  const r22 = a.concat(...b, c);
}
