{ a + b }
//# sourceMappingURL=x.map
