function f(a) {
  const s = "a literal string more than ten", t = 'short', u = require('some-long-module-name'), v = new RegExp('a-long-regular-expression');
  const w = a + "another literal string here" + `template literal string here`;
  const o = { key: "value literal string one", "k2": "value literal string two", [c]: "computed key literal string" };
  g("a literal string more than ten", "a literal string more than ten");
  const x = a.concat("concat literal argument", b);
  const y = "exactly10!".length + "exactly11!!";
  const z = 'ünïcödé lïtéräl', zz = 'éééééé'; 
}
const top = "top level literal string";
