'foo';
'use strict';
function g() {
  'other';
  "use strict";
  return a + b();
}
{
  function f(n, a = n + (n > 0 ? f(n - 1) : 'x')) { return a }
  class A { x = a + f(); static y = `${a}${b}`; m(p = a + b()) { return p } }
  const h = (q = a + b()) => q + r();
  const o = { get v() { return a + b() }, [a + b()]: 1, m() { return a + b() } };
  lbl: for (let i = a + b(); i < c + d(); i += e()) x = a + b();
  switch (a + b()) { case c + d(): y = a + b(); default: z = a + b() }
  try { a + b() } catch (e2) { e2 + b() } finally { a + b() }
  do x = a + b(); while (a + b());
  with (o) { a + b() }
  const gen = function* () { const r = a + (yield b); };
  const af = async () => a + await b;
  new Foo(a + b());
  tag`${a + b()}`;
  x = a ? b + c() : d + e();
  x = a || b + c();
  x ??= a + b();
  [p, q = a + b()] = arr;
  ({ p = a + b() } = obj);
  for (const k of a + b()) {}
  for (const k in a + b()) k + b();
  throw a + b();
}
