function f(a, b) {
  if (a + b) { x = 1 } else y = a + b;
  if (a.trim()) return a + b; else if (b + a) { z = a + b }
  return ('a' + 'b') + c;
}
