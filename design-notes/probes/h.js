function f(a,
           b)
{
  const x = 1;
  return a.trim() +
     b();
}
