function f() {
  const h = (__datadog_t_0) => { return a + b() };
}
