const f = (a) => a + b();
const g = (a) => { return a + b() };
const h = function () { return () => a + b() };
class K { m = (x) => x + y(); static s = a + b(); }
const o = { k: (x) => x.trim() };
export default (a) => a + b;
