var __datadog_t_0 = 1;
function f(__datadog_t_1) {
  return a + b();
}
