function f(a,b){ return a.trim() + b; }
