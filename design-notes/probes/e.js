function f(a) {
  const r = a?.prototype.trim();
}
