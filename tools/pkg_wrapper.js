// Loads /repo/main.js with a stand-in for ./wasm/wasm_iast_rewriter whose Rewriter replays the
// native implementation's real responses, then calls the package API.
// stdin: JSON lines {id, code, file, response}; stdout: {id, cache:{content,status}, noncache:{...}}
const Module = require('module')
const path = require('path')
const REPO = process.env.VERIF_REPO || '/repo'
let current = null
class StandIn {
  constructor (config) { this.config = config }
  rewrite (code, file) { return JSON.parse(JSON.stringify(current.response)) }
  csiMethods () { return [] }
  setLogger () {}
}
const origLoad = Module._load
Module._load = function (request, parent, isMain) {
  if (request === './wasm/wasm_iast_rewriter' && parent && parent.filename === path.join(REPO, 'main.js')) {
    return { Rewriter: StandIn }
  }
  if (request === 'lru-cache') {
    try { return origLoad.apply(this, arguments) } catch (e) {
      try { return origLoad.call(this, '/root/.nvm/versions/node/v20.20.2/lib/node_modules/puppeteer/node_modules/lru-cache', parent, isMain) } catch (e2) {
        class LRU { constructor (o) { this.max = (o && o.max) || 1000; this.m = new Map() }
          get (k) { if (!this.m.has(k)) return undefined; const v = this.m.get(k); this.m.delete(k); this.m.set(k, v); return v }
          set (k, v) { this.m.delete(k); this.m.set(k, v); if (this.m.size > this.max) this.m.delete(this.m.keys().next().value); return this }
          has (k) { return this.m.has(k) } delete (k) { return this.m.delete(k) } }
        return LRU
      }
    }
  }
  return origLoad.apply(this, arguments)
}
const pkg = require(path.join(REPO, 'main.js'))
const rl = require('readline').createInterface({ input: process.stdin })
const cache = new pkg.Rewriter({})
const noncache = new pkg.NonCacheRewriter({})
rl.on('line', (line) => {
  if (!line.trim()) return
  current = JSON.parse(line)
  const out = { id: current.id }
  for (const [name, rw] of [['cache', cache], ['noncache', noncache]]) {
    try {
      const r = rw.rewrite(current.code, current.file)
      out[name] = { content: r.content, status: r.metrics && r.metrics.status }
    } catch (e) { out[name] = { content: null, status: 'threw: ' + e } }
  }
  process.stdout.write(JSON.stringify(out) + '\n')
})
