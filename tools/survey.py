#!/usr/bin/env python3
"""Debug helper: run all validators on a batch and tally."""
import sys, os, json, collections
sys.path.insert(0, os.path.dirname(os.path.abspath(__file__)))
sys.path.insert(0, os.path.join(os.path.dirname(os.path.dirname(os.path.abspath(__file__)))))
import vlib, framework as F
from checks import common as C
P = F.prepare()
print("prep:", P.translator_errors, P.harness_error, P.coq_ok, P.driver_error, P.forbidden, (P.coq_output[-1500:] if not P.coq_ok else ""))
n = int(sys.argv[1]) if len(sys.argv) > 1 else 300
seed = sys.argv[2] if len(sys.argv) > 2 else "1"
cases = F.snippet_cases(opts={"reparse": True}) + F.generated_cases(seed, n, "survey", cfg_fn=F.config_variants, opts={"reparse": True})
res = C.run_cases(cases, "model,hooks,classes,directives,erase,sites,hygiene,shapes,roundtrip", "survey")
tally = collections.Counter()
ex = {}
for case, r, calls in res:
    for cin, cout, m in calls:
        tally["outcome:" + str(cout.get("outcome"))] += 1
        if m is None:
            tally["nomodel"] += 1; continue
        def note(k):
            tally[k] += 1
            ex.setdefault(k, (cin["code"][:400], (m or {}).get("classes")))
        if m.get("driver_error"): note("driver_error:" + m["driver_error"][:40])
        if m.get("model") == "ok" and m.get("ast_equal") is False: note("ast_diff")
        if m.get("directives_ok") is False: note("directives")
        if m.get("erase_ok") is False: note("erase")
        if m.get("missing_sites"): 
            for s in m["missing_sites"]: note("missing:" + s["class"])
        for k, nm in m.get("out_hygiene", []): note("hyg:" + k)
        for s in m.get("out_shapes", []): note("shape:" + s)
        if cout.get("reparse_error"): note("reparse_error")
        if m.get("roundtrip_ok") is False and (C.impl_metrics(cout) or {}).get("status") == "modified": note("roundtrip"); ex["roundtrip%d" % tally["roundtrip"]]=(cin["code"][:300]+"\n"+m["roundtrip_diff_out"]+"\n"+m["roundtrip_diff_reparsed"], None)
for k, v in sorted(tally.items()): print(v, k)
for k, (code, cl) in ex.items():
    print("----", k, cl); print(code)
