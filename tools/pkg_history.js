// Package-level driver: loads /repo/main.js with a stand-in native module that replays the real
// implementation's responses, then executes histories of package API calls.
// stdin: JSON lines {id, steps:[...]}; stdout: JSON lines {id, results:[...]}
// steps: {op:'rewrite', file, code, response, cache:true|false}
//        {op:'lookup', file, line, column}              -> js/source-map getSourcePathAndLineFromSourceMaps
//        {op:'orig_lookup', file, line, column}         -> getOriginalPathAndLineFromSourceMap (reads the file system)
//        {op:'run', file}                               -> run the last content returned for file; report both prepareStackTrace paths
//        {op:'find', payload, queries:[[l,c],...]}      -> node_source_map.SourceMap(payload).findEntry
const Module = require('module')
const path = require('path')
const vm = require('vm')
const REPO = process.env.VERIF_REPO || '/repo'
let current = null
class StandIn {
  constructor (config) { this.config = config }
  rewrite (code, file) {
    if (current.error) throw new Error(current.error)
    return JSON.parse(JSON.stringify(current.response))
  }
  csiMethods () { return [] }
  setLogger () {}
}
const origLoad = Module._load
Module._load = function (request, parent, isMain) {
  if (request === './wasm/wasm_iast_rewriter' && parent && parent.filename === path.join(REPO, 'main.js')) return { Rewriter: StandIn }
  if (request === 'lru-cache') {
    try { return origLoad.apply(this, arguments) } catch (e) {
      try { return origLoad.call(this, '/root/.nvm/versions/node/v20.20.2/lib/node_modules/puppeteer/node_modules/lru-cache', parent, isMain) } catch (e2) {
        class LRU { constructor (o) { this.max = (o && o.max) || 1000; this.m = new Map() }
          get (k) { if (!this.m.has(k)) return undefined; const v = this.m.get(k); this.m.delete(k); this.m.set(k, v); return v }
          set (k, v) { this.m.delete(k); this.m.set(k, v); if (this.m.size > this.max) this.m.delete(this.m.keys().next().value); return this }
          has (k) { return this.m.has(k) } delete (k) { return this.m.delete(k) } }
        return LRU
      }
    }
  }
  return origLoad.apply(this, arguments)
}
const pkg = require(path.join(REPO, 'main.js'))
const sm = require(path.join(REPO, 'js/source-map'))
const { SourceMap } = require(path.join(REPO, 'js/source-map/node_source_map'))
const cache = new pkg.Rewriter({})
const noncache = new pkg.NonCacheRewriter({})
const last = {}

function frames (file, content) {
  // both paths of the package's prepareStackTrace
  const out = {}
  const saved = Error.prepareStackTrace
  const lim = Error.stackTraceLimit
  Error.stackTraceLimit = 30
  try {
    for (const mode of ['string', 'structured']) {
      const inner = mode === 'structured'
        ? (e, cs) => cs.map(c => {
            // a handler may use the whole CallSite API
            for (const m of ['getThis', 'getTypeName', 'getFunction', 'getMethodName', 'getEvalOrigin', 'isToplevel', 'isEval', 'isNative', 'isConstructor',
              'isAsync', 'isPromiseAll', 'getPromiseIndex', 'getScriptNameOrSourceURL', 'getScriptHash', 'getEnclosingLineNumber', 'getEnclosingColumnNumber', 'getPosition', 'toString']) {
              if (typeof Object.getPrototypeOf(cs[0].callSite || cs[0])[m] === 'function' || typeof c[m] === 'function') c[m]()
            }
            return { file: c.getFileName(), line: c.getLineNumber(), column: c.getColumnNumber(), fn: c.getFunctionName() }
          })
        : undefined
      Error.prepareStackTrace = pkg.getPrepareStackTrace(inner)
      let err
      try {
        const ctx = vm.createContext({ Error, console: { log () {} } })
        new vm.Script(content, { filename: file }).runInContext(ctx)
      } catch (e) { err = e }
      if (!err) { out[mode] = { threw: false } } else {
        let st
        try { st = err.stack } catch (e2) { st = 'PREPARE THREW: ' + e2 }
        out[mode] = { threw: true, message: String(err && err.message), stack: st }
      }
    }
    // the raw positions of the frames in this file, looked up through the package API with and without a column
    Error.prepareStackTrace = (e, cs) => cs.map(c => ({ file: c.getFileName(), line: c.getLineNumber(), column: c.getColumnNumber(), fn: c.getFunctionName() }))
    let err
    try {
      const ctx = vm.createContext({ Error, console: { log () {} } })
      new vm.Script(content, { filename: file }).runInContext(ctx)
    } catch (e) { err = e }
    const raw = err && Array.isArray(err.stack) ? err.stack : []
    out.lineonly = raw.filter(f => f.file === file).map(f => ({
      fn: f.fn,
      line: f.line,
      column: f.column,
      withcol: sm.getSourcePathAndLineFromSourceMaps(file, f.line, f.column),
      nocol: sm.getSourcePathAndLineFromSourceMaps(file, f.line)
    }))
  } finally { Error.prepareStackTrace = saved; Error.stackTraceLimit = lim }
  return out
}

const rl = require('readline').createInterface({ input: process.stdin })
rl.on('line', (line) => {
  if (!line.trim()) return
  const job = JSON.parse(line)
  const results = []
  for (const st of job.steps) {
    let r
    try {
      if (st.op === 'rewrite') {
        current = st
        const rw = st.cache === false ? noncache : cache
        let resp
        try { resp = rw.rewrite(st.code, st.file); r = { content: resp.content, status: resp.metrics && resp.metrics.status } } catch (e) { r = { threw: String(e) } }
        if (resp) last[st.file] = resp.content
        else last[st.file] = st.code     // a caller whose rewrite failed serves the file as written
      } else if (st.op === 'lookup') {
        r = pkg.getPrepareStackTrace && require(path.join(REPO, 'js/source-map')).getSourcePathAndLineFromSourceMaps(st.file, st.line, st.column)
      } else if (st.op === 'orig_lookup') {
        r = pkg.getOriginalPathAndLineFromSourceMap(st.file, st.line, st.column)
      } else if (st.op === 'run') {
        r = frames(st.file, last[st.file])
      } else if (st.op === 'find') {
        const m = new SourceMap(st.payload)
        r = st.queries.map(q => { const e = m.findEntry(q[0], q[1]); return e && e.generatedLine !== undefined ? [e.generatedLine, e.generatedColumn, e.originalSource, e.originalLine, e.originalColumn, e.name === undefined ? null : e.name] : [] })
      } else r = { unknown: st.op }
    } catch (e) { r = { step_threw: String(e && e.stack || e) } }
    results.push(r === undefined ? null : r)
  }
  process.stdout.write(JSON.stringify({ id: job.id, results }) + '\n')
})
