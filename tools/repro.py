#!/usr/bin/env python3
"""Replays the concrete failing inputs of the findings (fixed or recorded) against the real
implementation and prints what it does on each.  Used to confirm a defect before a fix: commit
and to confirm the repair afterwards; the per-property checks re-run the same inputs."""
import json, os, re, sys
sys.path.insert(0, os.path.dirname(os.path.abspath(__file__)))
import vlib

CFG = vlib.default_config()

def hooks(content):
    body = content.split("\n//# sourceMappingURL=")[0]
    # skip the prologue (ends at the first "}((1, eval)('this')));")
    i = body.find("}((1, eval)('this')));")
    if i >= 0:
        body = body[i:]
    return len(re.findall(r"_ddiast\.\w+\(", body))

CASES = [
    ("C15-count-unmodified-ops", {"code": "{ const x = a + b; const y = 'a' + 'b'; const z = 'c' + 'd'; }", "file": "t.js"},
     lambda r: "count=%d hooks=%d" % (r["result"]["metrics"]["instrumentedPropagation"], hooks(r["result"]["content"]))),
    ("C15-optchain-guard-counted", {"code": "{ const x = a?.trim(); }", "file": "t.js"},
     lambda r: "count=%d hooks=%d debug=%s" % (r["result"]["metrics"]["instrumentedPropagation"], hooks(r["result"]["content"]), json.dumps(r["result"]["metrics"]["propagationDebug"], sort_keys=True))),
    ("C12-optchain-prototype-modified-no-hook", {"code": "{ const x = a?.prototype.trim(); }", "file": "t.js"},
     lambda r: "status=%s hooks=%d" % (r["result"]["metrics"]["status"], hooks(r["result"]["content"]))),
    ("C07-let-before-directives", {"code": "function g(){ 'other'; \"use strict\"; return a + b(); }", "file": "t.js"},
     lambda r: "body=" + re.search(r"function g\(\) \{(.*?)return", r["result"]["content"], re.S).group(1).replace("\n", " ").strip()[:120]),
    ("C07-prologue-before-directives", {"code": "'other'; 'use strict'; function g(){ return a + b(); }", "file": "t.js"},
     lambda r: "head=" + r["result"]["content"][:60].replace("\n", " ")),
    ("C04-if-test-else", {"code": "function f(a,b){ if (a + b) { x(); } else y = a + b; if (c) {} else if (b + a) {} }", "file": "t.js"},
     lambda r: "status=%s hooks=%d" % (r["result"]["metrics"]["status"], hooks(r["result"]["content"]))),
    ("C14-new-regexp-nonliteral-first-arg", {"code": "const r = new RegExp(x, 'a long literal flag string');", "file": "t.js"},
     lambda r: "literals=%s" % json.dumps([l["value"] for l in r["result"]["literalsResult"]["literals"]])),
    ("C13-parent-unwrap", {"code": "function f(a,b){ return a + b; }\n//# sourceMappingURL=x.js.map", "file": ""},
     lambda r: "outcome=%s" % r["outcome"]),
]

def main():
    vlib.build_harness()
    cases = [{"id": n, "config": CFG, "calls": [c], "opts": {}} for n, c, _ in CASES]
    res = vlib.run_harness(cases)
    for (n, c, f), r in zip(CASES, res):
        call = r["calls"][0]
        try:
            s = f(call)
        except Exception as e:
            s = "outcome=%s (%s) %s" % (call.get("outcome"), type(e).__name__, (call.get("error") or call.get("panic") or "")[:100])
        print("%-45s %s" % (n, s))

if __name__ == "__main__":
    main()
