#!/usr/bin/env python3
"""Rebuild seed_matrix.json from the log of a (possibly unfinished) tools/seed_matrix.py run.  usage: matrix_from_log.py <log> <out.json>"""
import json, re, sys
m = {}
for line in open(sys.argv[1]):
    parts = line.split()
    if not parts or not re.match(r"^(baseline|C\d\d[a-z]?)$", parts[0]):
        continue
    row = {}
    for p in parts[1:]:
        mm = re.match(r"^(C\d\d):([Xx-])$", p)
        if mm:
            row[mm.group(1)] = mm.group(2)
    if len(row) == 16:
        m[parts[0]] = row
json.dump(m, open(sys.argv[2], "w"), indent=1)
print(len(m), "rows")
