#!/bin/bash
# Confirm a seeded change independently: fresh worktree of /repo HEAD, (1) patch alone -> the 98 tests pass,
# (2) patch + demonstration -> the demonstration fails, (3) demonstration alone -> it passes.
# usage: seed_confirm.sh <ID> <dir with patch.diff demo.diff> ; prints one summary line, exit 0 if all three hold
ID=$1; SRC=$2; W=/tmp/seedchk/$ID
export CARGO_TARGET_DIR=/tmp/seedchk/target CARGO_NET_OFFLINE=true
mkdir -p /tmp/seedchk; rm -rf $W; git -C /repo worktree prune
git -C /repo worktree add -q --detach $W HEAD || exit 2
cd $W
git apply $SRC/patch.diff || { echo "$ID: patch does not apply"; git -C /repo worktree remove --force $W; exit 2; }
T1=$(cargo test --workspace --no-fail-fast --offline -j 8 2>&1 | grep -E "^test result" | head -1)
git apply $SRC/demo.diff || { echo "$ID: demo does not apply"; git -C /repo worktree remove --force $W; exit 2; }
JSDEMO=$(grep -E '^\+\+\+ b/.*\.js$' $SRC/demo.diff | sed 's#^+++ b/##')
if [ -n "$JSDEMO" ]; then
  D2=$(for f in $JSDEMO; do node $f >/dev/null 2>&1 && echo pass || echo FAIL; done | tr '\n' ' ')
else
  D2=$(cargo test seeded_demo --offline -j 8 2>&1 | grep -E "^test result" | tr '\n' ' ')
fi
git apply -R $SRC/patch.diff
if [ -n "$JSDEMO" ]; then
  D3=$(for f in $JSDEMO; do node $f >/dev/null 2>&1 && echo pass || echo FAIL; done | tr '\n' ' ')
else
  D3=$(cargo test seeded_demo --offline -j 8 2>&1 | grep -E "^test result" | tr '\n' ' ')
fi
cd /; git -C /repo worktree remove --force $W
echo "$ID | suite with patch: $T1 | demo with patch: $D2 | demo without patch: $D3"
