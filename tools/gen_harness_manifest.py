#!/usr/bin/env python3
"""Regenerate harness/Cargo.toml from /repo/Cargo.toml (dependencies + features), copy Cargo.lock
and tracer_logger.js.  The harness compiles /repo/src/lib.rs as its own rlib, so it must carry
exactly the repository's dependency list (plus serde_json and swc_ecma_ast's serde-impl)."""
import os, re, shutil, sys
REPO = os.environ.get("VERIF_REPO", "/repo")
HERE = os.path.dirname(os.path.dirname(os.path.abspath(__file__)))
H = os.path.join(HERE, "harness")

def section(text, name):
    m = re.search(r"^\[%s\]\s*\n(.*?)(?=^\[|\Z)" % re.escape(name), text, re.S | re.M)
    return m.group(1).strip("\n") if m else ""

def main():
    src = open(os.path.join(REPO, "Cargo.toml")).read()
    deps = section(src, "dependencies")
    out = []
    for line in deps.splitlines():
        if re.match(r"\s*swc_ecma_ast\s*=", line):
            m = re.search(r'"([^"]+)"', line)
            line = 'swc_ecma_ast = { version = "%s", features = ["serde-impl"] }' % m.group(1)
        out.append(line)
    feats = section(src, "features")
    tpl = open(os.path.join(H, "Cargo.toml.in")).read()
    tpl = tpl.replace("/repo/src/lib.rs", os.path.join(REPO, "src/lib.rs"))
    new = tpl.replace("@DEPS@", "\n".join(out)).replace("@FEATURES@", feats)
    path = os.path.join(H, "Cargo.toml")
    if not os.path.exists(path) or open(path).read() != new:
        open(path, "w").write(new)
    for f in ("Cargo.lock", "tracer_logger.js"):
        s, d = os.path.join(REPO, f), os.path.join(H, f)
        if not os.path.exists(d) or open(s, "rb").read() != open(d, "rb").read():
            shutil.copyfile(s, d)

if __name__ == "__main__":
    main()
