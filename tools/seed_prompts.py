#!/usr/bin/env python3
"""Prepare a round of seeded changes: one scratch worktree of /repo HEAD and one prompt file per property under <dir>
(outside /repo and /verif). The prompt carries the property text, generic instructions and one-line descriptions of the
changes already tried for that property -- nothing else from /verif. usage: seed_prompts.py /tmp/mut9"""
import json, os, subprocess, sys, glob
root = sys.argv[1]
os.makedirs(root, exist_ok=True)
props = {}
for l in open('/verif/properties.jsonl'):
    d = json.loads(l); props[d['id']] = d
hints = {
 "C01": "src/transform/call_expr_transform.rs and src/transform/prototype_transform.rs (receivers, `call`/`apply`, literal receivers, member chains), src/transform/template_transform.rs; getters that return different values on each read; operands that are `await`/`yield` expressions inside async functions and generators",
 "C02": "src/transform/arrow_transform.rs and src/visitor/block_transform_visitor.rs: what is inserted into blocks and arrow bodies (labels, directives, declarations hoisting, `let` placement, async/generator arrows, arrows returning object literals)",
 "C03": "src/transform/template_transform.rs and the tagged-template / String.raw handling; the hook's FIRST argument (the result expression) for templates, `+=`, optional calls; literal-only operands",
 "C04": "src/visitor/csi_methods.rs lookups and src/transform/call_expr_transform.rs gates: which method names / receiver kinds / argument shapes make an enabled method call silently skipped (computed member names, string-literal keys, `super`, parenthesised callees, calls inside template substitutions)",
 "C05": "src/lib_wasm.rs `to_config` and src/telemetry.rs verbosity parsing, src/util.rs random prefix, main.js constructor/`setLogger`: defaults and how each option value is interpreted",
 "C06": "src/visitor/ident_provider.rs and src/visitor/visitor_util.rs: counter reset between statements, the set of registered names, the name format, the duplicate-name check (`Variable name duplicated`)",
 "C07": "src/visitor/block_transform_visitor.rs insertion helpers for function bodies of every kind: constructors, getters/setters, object methods, class static blocks, async arrows with block bodies; a directive prologue followed by an empty statement or a parenthesised string",
 "C08": "src/visitor/visitor_util.rs / src/util.rs helpers that build identifiers, parentheses and sequence expressions: places where the printer needs parentheses the tree does not carry (arrow/object/`in`/`??` mixing with `||`, exponent with unary, `new` with calls, optional chain after `new`)",
 "C09": "src/rewriter.rs print_js and the spans given to injected nodes in src/transform/*.rs: what an injected identifier, parenthesis or call is mapped to; source file name in `sources`; `file` and `sourceRoot` of the emitted map",
 "C10": "src/rewriter.rs extract_source_map / decode of data URLs (charset parameters, URL-encoded JSON, whitespace), relative-path resolution against the source file's folder, and `sources`/`sourcesContent`/`names` tables of the chained map",
 "C11": "main.js (CacheRewriter.rewrite, cacheRewrittenSourceMap calls, getPrepareStackTrace) and js/stack-trace/index.js (WrappedCallSite, eval origins, the string path's regular expressions)",
 "C12": "main.js NonCacheRewriter / CacheRewriter handling of the response (status strings, content substitution, errors thrown by the native rewriter) and src/lib_wasm.rs conversion of the result",
 "C13": "src/util.rs (file_name, parse_source_map, base64/data-URL decoding, FileReader) and src/lib_wasm.rs option conversion: inputs that reach an `unwrap`, an index, a slice or an unbounded loop",
 "C14": "src/visitor/literal_visitor.rs: which AST positions are visited (template literals, JSX-free object keys, class members, default values, tagged templates, `import()`/`require` arguments) and how an `ident` is attached",
 "C15": "src/transform/transform_status.rs and src/telemetry.rs: how statuses and tags combine (Cancelled vs Modified, nested results, tag names for renamed methods, verbosity levels)",
 "C16": "main.js caches (rewritten source maps, LRU of original maps), js/source-map/index.js module-level state, src/lib_wasm.rs Rewriter instance fields: anything one call can leave behind for the next",
}
for pid, d in sorted(props.items()):
    w = '%s/%s' % (root, pid)
    if not os.path.exists(w):
        subprocess.run(['git', '-C', '/repo', 'worktree', 'add', '-q', '--detach', w, 'HEAD'], check=True)
        subprocess.run(['cp', '-r', '/repo/target', w + '/target'], check=True)
    tried = []
    for m in sorted(glob.glob('/verif/seeded/%s*/meta.json' % pid)):
        tried.append("    - " + json.load(open(m))["change"])
    prompt = f"""You are testing a verification effort by planting a realistic bug. You work ONLY inside the git worktree {w}
(a scratch copy of the repository DataDog/dd-native-iast-rewriter-js: a Rust/SWC-based JavaScript source-to-source rewriter that
instruments string operations for Datadog IAST, plus a small JavaScript wrapper in main.js / js/). Do not read or write anything
outside {w}. The sandbox has no network; build with
`cd {w} && CARGO_NET_OFFLINE=true cargo test --workspace --no-fail-fast --offline -j 4` (a warm target directory is already in place;
the suite has 98 tests and all pass on the unchanged tree). node 20 is available for JavaScript (there is no node_modules: stub what you need).
Never use `git stash` (the stash is shared with other worktrees); use `git diff > file` / `git apply` / `git apply -R` instead.

Here is a semantic property of the code base that should hold:

  {pid}: {d['title']}
  {d['statement']}
  (quantified over: {d['quantifier']['text']})

YOUR TASK: make a small, realistic change to the source code (Rust under src/, or main.js / js/**/*.js -- NOT the tests) of the kind a
maintainer could make by mistake in a refactoring, a performance tweak, a dependency-API migration or a feature addition, such that
  (1) the code still compiles and ALL 98 existing tests still pass, unedited; and
  (2) the property above no longer holds: there is a concrete input on which the changed code violates it while the unchanged code does not.
The change should be subtle (a few lines) and plausible. Prefer a violation that only shows on an input a test-writer would NOT think of
first; for this property a good place to look is: {hints[pid]}. Read the code that implements the property carefully
before choosing; do not go for the first thing that comes to mind. The following changes have ALREADY been tried for this property --
do something different in kind (another clause of the property, another code path, another input shape), not a variation of one of them:
{chr(10).join(tried)}

DELIVERABLES, all inside {w}:
  * `patch.diff`  -- the change to the source, as produced by `git diff` (source files only, no tests, no new files other than source).
  * `demo.diff`   -- a separate patch adding a demonstration that FAILS with your change and PASSES without it: either a Rust unit test
                     whose name starts with `seeded_demo` (put it in a new file src/tests/seeded_demo_test.rs and register it in
                     src/tests/mod.rs; it is run with `cargo test seeded_demo`), or, for a change in the JavaScript wrapper, a
                     stand-alone script `seeded_demo.js` at the repository root that exits non-zero on failure (`node seeded_demo.js`).
                     `demo.diff` must apply on top of the unchanged tree as well as on top of `patch.diff`.
  * `seeded_README.md` -- 5-15 lines: what you changed, why it breaks the property, the concrete failing input, and what the input needs
                     to look like for the violation to show (be precise: this is used to judge whether a checker could have seen it).
Verify yourself before finishing: (a) with patch.diff applied, the full suite passes (98 tests); (b) with patch.diff + demo.diff the
demonstration fails; (c) with demo.diff alone the demonstration passes. Leave the worktree with BOTH patches applied (uncommitted).
Do not commit. If, while exploring, you notice that the UNCHANGED code already violates the property on some input, say so in one
extra line of your reply (input and what happens). Reply with a three-line summary (what changed; failing input; results of a/b/c).
"""
    open('%s/%s.prompt.txt' % (root, pid), 'w').write(prompt)
print('ok')
