#!/usr/bin/env python3
"""Prepare a round of seeded changes: one scratch worktree of /repo HEAD and one prompt file per property under <dir>
(outside /repo and /verif). The prompt carries the property text, generic instructions and one-line descriptions of the
changes already tried for that property -- nothing else from /verif. usage: seed_prompts.py /tmp/mut9"""
import json, os, subprocess, sys, glob
root = sys.argv[1]
os.makedirs(root, exist_ok=True)
props = {}
for l in open('/verif/properties.jsonl'):
    d = json.loads(l); props[d['id']] = d
hints = {
 "C01": "`this`, `super`, getters/proxies on receivers, await/yield operands, tagged templates, operands whose evaluation throws, re-entrancy (an operand that calls the same function again)",
 "C02": "what capturing into temporaries or re-printing does to rarely used syntax: `arguments`, closures over loop variables, labels, getters/setters, async generators, class private names, numeric separators, regex flags, BigInt, HTML comments",
 "C03": "which value the hook is handed as RESULT and as each OPERAND when an operand is itself rewritten, spread, missing, or when the method is reached through call/apply/computed key",
 "C04": "a syntactic position or statement kind (class static blocks, accessors, for-in/of heads, switch cases, labelled blocks, catch parameters, default exports, object methods, async arrows) in which an enabled operation silently stops being visited",
 "C05": "the meaning of each option value at its boundary: empty strings, casing, duplicates in csiMethods, a src listed twice with different dst, operator entries, unusual but legal names",
 "C06": "names: collisions with user identifiers that only resemble the prefix, prefixes with special characters, counters beyond one digit, nested functions and blocks, class bodies, switch/case scopes, loops with closures",
 "C07": "directives with escapes or line continuations, directives followed by a comment or on the same line as code, getters/setters/constructors/arrow bodies with directives, files starting with a BOM or hashbang",
 "C08": "operator precedence and automatic semicolon insertion around what the rewriter injects; `in` inside for-heads; object literal or function/class expression at statement start; `async`/`let`/`yield`/`await` used as identifiers; optional chains with `new`/templates",
 "C09": "what a mapping of INJECTED text points at and what the mapping of ORIGINAL text right after an injection points at (column arithmetic after multi-byte text, after the injected `let` line, inside multi-line templates)",
 "C10": "lookups that fall between tokens, at line ends, before the first token of a line, in lines without tokens; names; sourcesContent; a sourceRoot; an original map that itself has sourceless segments",
 "C11": "line 1 / column 1 boundaries, frames without a column, frames of native or anonymous code, Error.prepareStackTrace installed before or after the wrapper, Error.stackTraceLimit, errors thrown while preparing, the LRU cache of original maps",
 "C12": "inputs where something is normalised or partially transformed and then abandoned: cancelled transforms, nested functions where only an inner one matters, errors after a modification, the wasm/JS wrapper's handling of the flag",
 "C13": "resource limits: deeply nested expressions, very long operand chains, huge counters, unusual unicode (lone surrogates, astral identifiers), empty or enormous file names, invalid UTF-8 in maps, odd option types from JavaScript",
 "C14": "what counts as a literal worth reporting (length window in bytes vs characters, escapes, templates without substitutions, keys, directives, JSX-like text, import/export specifiers) and where its line/column points",
 "C15": "count and tags when one source operation yields several hooks or none (nested operations, optional-chain guards, hoisted targets, literal-only sums, cancelled files, several calls on one rewriter instance)",
 "C16": "anything that outlives one call: statics, lazily initialised tables, thread-locals, caches in the JavaScript wrapper, counters that are not reset, iteration order of hash maps, random prefixes",
}
for pid, d in sorted(props.items()):
    w = '%s/%s' % (root, pid)
    if not os.path.exists(w):
        subprocess.run(['git', '-C', '/repo', 'worktree', 'add', '-q', '--detach', w, 'HEAD'], check=True)
        subprocess.run(['cp', '-r', '/repo/target', w + '/target'], check=True)
    tried = []
    for m in sorted(glob.glob('/verif/seeded/%s*/meta.json' % pid)):
        tried.append("    - " + json.load(open(m))["change"])
    prompt = f"""You are testing a verification effort by planting a realistic bug. You work ONLY inside the git worktree {w}
(a scratch copy of the repository DataDog/dd-native-iast-rewriter-js: a Rust/SWC-based JavaScript source-to-source rewriter that
instruments string operations for Datadog IAST, plus a small JavaScript wrapper in main.js / js/). Do not read or write anything
outside {w}. The sandbox has no network; build with
`cd {w} && CARGO_NET_OFFLINE=true cargo test --workspace --no-fail-fast --offline -j 4` (a warm target directory is already in place;
the suite has 98 tests and all pass on the unchanged tree). node 20 is available for JavaScript (there is no node_modules: stub what you need).
Never use `git stash` (the stash is shared with other worktrees); use `git diff > file` / `git apply` / `git apply -R` instead.

Here is a semantic property of the code base that should hold:

  {pid}: {d['title']}
  {d['statement']}
  (quantified over: {d['quantifier']['text']})

YOUR TASK: make a small, realistic change to the source code (Rust under src/, or main.js / js/**/*.js -- NOT the tests) of the kind a
maintainer could make by mistake in a refactoring, a performance tweak, a dependency-API migration or a feature addition, such that
  (1) the code still compiles and ALL 98 existing tests still pass, unedited; and
  (2) the property above no longer holds: there is a concrete input on which the changed code violates it while the unchanged code does not.
The change should be subtle (a few lines) and plausible. Prefer a violation that only shows on an input a test-writer would NOT think of
first; for this property a good place to look is: {hints[pid]}. Read the code that implements the property carefully
before choosing; do not go for the first thing that comes to mind. The following changes have ALREADY been tried for this property --
do something different in kind (another clause of the property, another code path, another input shape), not a variation of one of them:
{chr(10).join(tried)}

DELIVERABLES, all inside {w}:
  * `patch.diff`  -- the change to the source, as produced by `git diff` (source files only, no tests, no new files other than source).
  * `demo.diff`   -- a separate patch adding a demonstration that FAILS with your change and PASSES without it: either a Rust unit test
                     whose name starts with `seeded_demo` (put it in a new file src/tests/seeded_demo_test.rs and register it in
                     src/tests/mod.rs; it is run with `cargo test seeded_demo`), or, for a change in the JavaScript wrapper, a
                     stand-alone script `seeded_demo.js` at the repository root that exits non-zero on failure (`node seeded_demo.js`).
                     `demo.diff` must apply on top of the unchanged tree as well as on top of `patch.diff`.
  * `seeded_README.md` -- 5-15 lines: what you changed, why it breaks the property, the concrete failing input, and what the input needs
                     to look like for the violation to show (be precise: this is used to judge whether a checker could have seen it).
Verify yourself before finishing: (a) with patch.diff applied, the full suite passes (98 tests); (b) with patch.diff + demo.diff the
demonstration fails; (c) with demo.diff alone the demonstration passes. Leave the worktree with BOTH patches applied (uncommitted).
Do not commit. If, while exploring, you notice that the UNCHANGED code already violates the property on some input, say so in one
extra line of your reply (input and what happens). Reply with a three-line summary (what changed; failing input; results of a/b/c).
"""
    open('%s/%s.prompt.txt' % (root, pid), 'w').write(prompt)
print('ok')
