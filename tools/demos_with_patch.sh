#!/bin/bash
# Every kept seeded change must still break its demonstration on /repo HEAD (a later repair can make a change harmless):
# 4 scratch worktrees under /tmp, removed afterwards. Prints one line per change whose demonstration does NOT fail, then "done".
set -u
R=/tmp/demochk2; rm -rf $R; mkdir -p $R; git -C /repo worktree prune
ls -d /verif/seeded/*/ | xargs -n1 basename > $R/all.txt
split -n l/4 -d $R/all.txt $R/part
for k in 0 1 2 3; do
  (
    W=$R/w$k; git -C /repo worktree add -q --detach $W HEAD || exit 2
    cp -r /repo/target $W/target 2>/dev/null
    cd $W
    for id in $(cat $R/part0$k); do
      P=/verif/seeded/$id/patch.diff; D=/verif/seeded/$id/demo.diff
      git apply $P 2>/dev/null || { echo "$id: patch does not apply"; git checkout -q -- . ; git clean -fdq -e target; continue; }
      git apply $D 2>/dev/null || { echo "$id: demo does not apply on the patch"; git checkout -q -- . ; git clean -fdq -e target; continue; }
      JS=$(grep -E '^\+\+\+ b/.*\.js$' $D | sed 's#^+++ b/##')
      if [ -n "$JS" ]; then
        ok=1; for f in $JS; do timeout 300 node $f >/dev/null 2>&1 || ok=0; done
        [ $ok = 1 ] && echo "$id: demonstration PASSES with the change"
      else
        out=$(CARGO_NET_OFFLINE=true timeout 900 cargo test seeded_demo --offline -j 4 2>&1 | grep -E "^test result" | head -1)
        case "$out" in *"ok."*) echo "$id: demonstration PASSES with the change";; esac
      fi
      git checkout -q -- . ; git clean -fdq -e target
    done
    cd /; git -C /repo worktree remove --force $W
  ) &
done
wait
rm -rf $R; git -C /repo worktree prune
echo done
