#!/usr/bin/env python3
"""Debug helper: run one snippet through implementation + model + validators and print."""
import sys, os, json
sys.path.insert(0, os.path.dirname(os.path.abspath(__file__)))
sys.path.insert(0, os.path.join(os.path.dirname(os.path.dirname(os.path.abspath(__file__)))))
import vlib
from checks import common as C
code = sys.argv[1]
what = sys.argv[2] if len(sys.argv) > 2 else "model,hooks,classes"
cfg = vlib.default_config()
if len(sys.argv) > 3:
    cfg.update(json.loads(sys.argv[3]))
case = {"id": "try", "config": cfg, "calls": [{"code": code, "file": "dir/t.js"}], "opts": {"reparse": True, "pieces": True}}
r = C.run_cases([case], what, "try")[0]
cin, cout, m = r[2][0]
print(cout.get("outcome"), cout.get("error") or "")
if cout.get("outcome") == "ok":
    c = cout["result"]["content"]
    i = c.find("}((1, eval)('this')));")
    print(c[i + 23 if i >= 0 else 0:].split("\n//# sourceMappingURL")[0])
    print(json.dumps(cout["result"]["metrics"]))
    print(json.dumps(cout["result"].get("literalsResult")))
print(json.dumps({k: v for k, v in (m or {}).items() if k not in ("model_ast",)}, indent=0)[:3000])
