#!/usr/bin/env python3
"""Shared machinery of the /verif checks: builds (translator, harness, Coq, extraction, OCaml
driver), running the implementation and the extracted model on the same cases, evidence and
replay files.  Everything is rebuilt from /repo's current working tree on every run."""
import fcntl, hashlib, json, os, random, re, subprocess, sys, time

REPO = os.environ.get("VERIF_REPO", "/repo")
ROOT = os.path.dirname(os.path.dirname(os.path.abspath(__file__)))
CACHE = os.path.join(ROOT, ".cache")
COQ = os.path.join(ROOT, "coq")
OCAML = os.path.join(ROOT, "ocaml")
HARNESS_DIR = os.path.join(ROOT, "harness")
TARGET = os.path.join(CACHE, "target")
GUARD = "datadog_dd_native_iast_rewriter_js_verif"
HARNESS_BIN = os.path.join(TARGET, "debug", "harness")
DRIVER_BIN = os.path.join(OCAML, "driver")
NJOBS = int(os.environ.get("VERIF_JOBS", "16"))

os.makedirs(CACHE, exist_ok=True)


def log(*a):
    print(*a, file=sys.stderr, flush=True)


class BuildError(Exception):
    def __init__(self, stage, output):
        super().__init__(stage)
        self.stage, self.output = stage, output


def sh(cmd, cwd=None, env=None, timeout=3600, check=True, stage="cmd"):
    e = dict(os.environ)
    if env:
        e.update(env)
    p = subprocess.run(cmd, cwd=cwd, env=e, stdout=subprocess.PIPE, stderr=subprocess.STDOUT,
                       timeout=timeout, shell=isinstance(cmd, str))
    out = p.stdout.decode("utf-8", "replace")
    if check and p.returncode != 0:
        raise BuildError(stage, out)
    return p.returncode, out


class Lock:
    def __init__(self, name):
        self.path = os.path.join(CACHE, name + ".lock")

    def __enter__(self):
        self.f = open(self.path, "w")
        fcntl.flock(self.f, fcntl.LOCK_EX)
        return self

    def __exit__(self, *a):
        fcntl.flock(self.f, fcntl.LOCK_UN)
        self.f.close()


def repo_hash():
    h = hashlib.sha256()
    for base in ("src", "js"):
        for root, dirs, files in os.walk(os.path.join(REPO, base)):
            dirs.sort()
            for f in sorted(files):
                p = os.path.join(root, f)
                h.update(p.encode())
                h.update(open(p, "rb").read())
    for f in ("main.js", "Cargo.toml", "Cargo.lock", "tracer_logger.js"):
        p = os.path.join(REPO, f)
        if os.path.exists(p):
            h.update(open(p, "rb").read())
    return h.hexdigest()[:16]


# ------------------------------------------------------------------------------------------
# builds
# ------------------------------------------------------------------------------------------
def run_translator():
    """Regenerate coq/Generated.v and the panic-site inventory. Returns list of errors."""
    rc, out = sh([sys.executable, os.path.join(ROOT, "gen", "extract_constants.py")], check=False)
    errs = [l for l in out.splitlines() if l.startswith("TRANSLATOR-ERROR")]
    if rc != 0 and not errs:
        errs = ["translator crashed: " + out[-400:]]
    return errs


def build_harness():
    with Lock("cargo"):
        sh([sys.executable, os.path.join(ROOT, "tools", "gen_harness_manifest.py")], stage="manifest")
        env = {"CARGO_TARGET_DIR": TARGET, "CARGO_NET_OFFLINE": "true",
               "RUSTFLAGS": "--cfg " + GUARD + " -Awarnings"}
        t = time.time()
        sh(["cargo", "build", "--offline", "-j", str(NJOBS)], cwd=HARNESS_DIR, env=env,
           timeout=3000, stage="harness-build")
        log("harness built in %.1fs" % (time.time() - t))


COQ_FILES_ORDER = None


def coq_files():
    return sorted(f for f in os.listdir(COQ) if f.endswith(".v")) + \
        sorted(os.path.join("Properties", f) for f in os.listdir(os.path.join(COQ, "Properties"))
               if f.endswith(".v")) if os.path.isdir(os.path.join(COQ, "Properties")) else \
        sorted(f for f in os.listdir(COQ) if f.endswith(".v"))


def build_coq(targets=None, timeout=2400):
    """Full .vo build of the Coq development (or of the given .vo targets and their
    dependencies). Returns (ok, output)."""
    with Lock("coq"):
        files = coq_files()
        mk = os.path.join(COQ, "Makefile")
        want = "# files: " + " ".join(files)
        regen = True
        if os.path.exists(mk + ".files") and open(mk + ".files").read() == want and os.path.exists(mk):
            regen = False
        if regen:
            for stale in (".Makefile.d",):
                if os.path.exists(os.path.join(COQ, stale)):
                    os.remove(os.path.join(COQ, stale))
            sh(["coq_makefile", "-f", "_CoqProject"] + files + ["-o", "Makefile"], cwd=COQ, stage="coq_makefile")
            open(mk + ".files", "w").write(want)
        cmd = ["make", "-j", str(NJOBS)] + (targets or [])
        rc, out = sh(["timeout", str(timeout)] + cmd, cwd=COQ, check=False, timeout=timeout + 60)
        return rc == 0, out


def build_driver():
    with Lock("ocaml"):
        srcs = ["model.ml", "model.mli", "util.ml", "validate.ml", "driver.ml"]
        h = hashlib.sha256()
        for s in srcs:
            h.update(open(os.path.join(OCAML, s), "rb").read())
        stamp = os.path.join(OCAML, ".stamp")
        if os.path.exists(DRIVER_BIN) and os.path.exists(stamp) and open(stamp).read() == h.hexdigest():
            return
        sh(["sh", "build.sh"], cwd=OCAML, stage="ocaml-build", timeout=1200)
        open(stamp, "w").write(h.hexdigest())


# ------------------------------------------------------------------------------------------
# running the implementation and the model
# ------------------------------------------------------------------------------------------
def esc(s):
    out = []
    for b in s.encode("utf-8", "surrogatepass") if isinstance(s, str) else s:
        if 0x20 <= b < 0x7f and b not in (0x22, 0x5c):
            out.append(chr(b))
        else:
            out.append("\\x%02x" % b)
    return "".join(out)


def run_harness(cases, tag="batch", timeout=None):
    """cases: list of dicts (see harness/src/main.rs). Returns list of result dicts."""
    if timeout is None:
        # a batch of the quick tier takes seconds; a rewrite call that never returns must not cost the check an hour
        timeout = 3000 if os.environ.get("VERIF_TIER") == "thorough" else 600
    inp = os.path.join(CACHE, "cases-%s-%d.jsonl" % (tag, os.getpid()))
    outp = os.path.join(CACHE, "impl-%s-%d.jsonl" % (tag, os.getpid()))
    with open(inp, "w") as f:
        for c in cases:
            f.write(json.dumps(c) + "\n")
    try:
        rc, out = sh([HARNESS_BIN, inp, outp], check=False, timeout=timeout)
    except subprocess.TimeoutExpired:
        for f in (inp, outp):
            if os.path.exists(f):
                os.remove(f)
        raise BuildError("harness-run", "the harness did not finish a batch of %d calls within %d s: a rewrite call does not return (the business of C13)" % (len(cases), timeout))
    if rc != 0:
        raise BuildError("harness-run", out[-2000:])
    res = [json.loads(l) for l in open(outp)]
    os.remove(inp)
    os.remove(outp)
    return res


def run_harness_sharded(cases, tag="batch", shards=None):
    import concurrent.futures
    shards = shards or min(NJOBS, max(1, len(cases) // 50))
    if shards <= 1:
        return run_harness(cases, tag)
    chunks = [cases[i::shards] for i in range(shards)]
    with concurrent.futures.ThreadPoolExecutor(shards) as ex:
        parts = list(ex.map(lambda ic: run_harness(ic[1], "%s-%d" % (tag, ic[0])), enumerate(chunks)))
    res = [None] * len(cases)
    for i, part in enumerate(parts):
        for j, r in enumerate(part):
            res[i + j * shards] = r
    return res


def raw_wellformed(raw):
    """The configuration object is one serde accepts: known keys carry values of their types (foreign keys are ignored)."""
    if not isinstance(raw, dict):
        return False
    for k in ("chainSourceMap", "comments", "literals"):
        if k in raw and not isinstance(raw[k], bool):
            return False
    for k in ("localVarPrefix", "telemetryVerbosity"):
        if k in raw and not isinstance(raw[k], str):
            return False
    if "csiMethods" in raw:
        if not isinstance(raw["csiMethods"], list):
            return False
        for m in raw["csiMethods"]:
            if not isinstance(m, dict) or not isinstance(m.get("src"), str):
                return False
            if "dst" in m and not isinstance(m["dst"], str):
                return False
            for k in ("operator", "allowedWithoutCallee"):
                if k in m and not isinstance(m[k], bool):
                    return False
    return True


def raw_lines(raw):
    """The unresolved configuration as given by the caller (for the to_config model)."""
    L = []
    if not isinstance(raw, dict):
        return L
    if raw_wellformed(raw):
        # the model and the specifications then work with the configuration as coq/ToConfig.v resolves it from what the
        # caller gave -- not with what the implementation made of it
        L.append("RAWVALID")
    def b(k, name):
        if isinstance(raw.get(k), bool):
            L.append("RAWOPT\t%s\t%d" % (name, int(raw[k])))
    b("chainSourceMap", "chain"); b("comments", "comments"); b("literals", "literals")
    if isinstance(raw.get("localVarPrefix"), str):
        L.append("RAWOPT\tprefix\t" + esc(raw["localVarPrefix"]))
    if isinstance(raw.get("telemetryVerbosity"), str):
        L.append("RAWOPT\tverbosity\t" + esc(raw["telemetryVerbosity"]))
    if isinstance(raw.get("csiMethods"), list):
        L.append("RAWMETHODS")
        for m in raw["csiMethods"]:
            ob = lambda v: "-" if not isinstance(v, bool) else str(int(v))
            L.append("RAWMETHOD\t%s\t%s\t%s\t%s" % (esc(m.get("src", "")),
                     "-" if not isinstance(m.get("dst"), str) else "=" + esc(m["dst"]),
                     ob(m.get("operator")), ob(m.get("allowedWithoutCallee"))))
    return L


def driver_block(rid, cfg, prefix_sexp, call_in, call_out, what, raw=None):
    """One BEGIN..END block of the driver protocol for one call."""
    L = ["BEGIN\t" + rid, "PREFIX\t" + esc(cfg["localVarPrefix"])]
    L += raw_lines(raw)
    for m in cfg["methods"]:
        L.append("METHOD\t%s\t%s\t%d\t%d" % (esc(m["src"]), esc(m["dst"]), int(m["operator"]),
                                              int(m["allowedWithoutCallee"])))
    for n in cfg["literalCallers"]:
        L.append("LITCALLER\t" + esc(n))
    L.append("VERB\t" + cfg["verbosity"])
    L.append("FLAGS\t%d\t%d\t%d" % (int(cfg["literals"]), int(cfg["chainSourceMap"]), int(cfg["comments"])))
    L.append("PRESTMTS\t" + prefix_sexp)
    L.append("FILE\t" + esc(call_in.get("file", "")))
    L.append("SRC\t" + esc(call_in.get("code", "")))
    if "ast_in" in call_out:
        L.append("IN\t" + call_out["ast_in"])
    if "ast_out" in call_out:
        L.append("OUT\t" + call_out["ast_out"])
    if "ast_reparsed" in call_out:
        L.append("REPARSED\t" + call_out["ast_reparsed"])
    L.append("RUN\t" + what)
    L.append("END")
    return "\n".join(L) + "\n"


def run_driver_text(text, tag="drv"):
    inp = os.path.join(CACHE, "drv-in-%s-%d.txt" % (tag, os.getpid()))
    outp = os.path.join(CACHE, "drv-out-%s-%d.jsonl" % (tag, os.getpid()))
    open(inp, "w").write(text)
    rc, out = sh("ulimit -s unlimited 2>/dev/null || ulimit -s 1000000 2>/dev/null; exec %s %s %s" % (DRIVER_BIN, inp, outp),
                 check=False, timeout=3000)
    if rc != 0:
        raise BuildError("driver-run", out[-2000:])
    res = [json.loads(l) for l in open(outp)]
    os.remove(inp)
    os.remove(outp)
    return res


def run_model(cases, results, what="model", tag="drv"):
    """For every call of every case run the driver. Returns dict (case index, call index) -> result."""
    import concurrent.futures
    blocks = []
    keys = []
    for ci, (c, r) in enumerate(zip(cases, results)):
        if "config" not in r or "calls" not in r:
            continue
        for ki, (cin, cout) in enumerate(zip(c["calls"], r["calls"])):
            if "ast_in" not in cout and "toconfig" not in what:
                continue
            keys.append((ci, ki))
            w = what
            if cout.get("outcome") == "ok" and cout["result"].get("content"):
                w += ",modified"
            blocks.append(driver_block("%d.%d" % (ci, ki), r["config"], r["prefix"], cin, cout, w, raw=c.get("config")))
    if not blocks:
        return {}
    shards = min(NJOBS, max(1, len(blocks) // 40))
    chunks = [blocks[i::shards] for i in range(shards)]
    with concurrent.futures.ThreadPoolExecutor(shards) as ex:
        parts = list(ex.map(lambda ic: run_driver_text("".join(ic[1]), "%s-%d" % (tag, ic[0])), enumerate(chunks)))
    out = {}
    for i, part in enumerate(parts):
        for j, r in enumerate(part):
            out[keys[i + j * shards]] = r
    return out


def run_node(script, jobs, timeout=1200, args=None):
    """Feed JSON lines to tools/<script> (Node) and return the parsed JSON lines it prints (None on failure)."""
    inp = "\n".join(json.dumps(j) for j in jobs) + "\n"
    try:
        p = subprocess.run(["node", "--experimental-vm-modules", "--no-warnings", os.path.join(ROOT, "tools", script)] + list(args or []), input=inp.encode(),
                           stdout=subprocess.PIPE, stderr=subprocess.PIPE, timeout=timeout,
                           env=dict(os.environ, VERIF_REPO=REPO))
    except subprocess.TimeoutExpired:
        log("node %s timed out" % script)
        return None
    if p.returncode != 0:
        log("node %s failed: %s" % (script, p.stderr.decode()[-800:]))
        return None
    return [json.loads(l) for l in p.stdout.decode().split("\n") if l.strip()]


# ------------------------------------------------------------------------------------------
# configurations
# ------------------------------------------------------------------------------------------
DEFAULT_METHODS = [
    {"src": "plusOperator", "operator": True},
    {"src": "tplOperator", "operator": True},
    {"src": "substring", "dst": "stringSubstring"},
    {"src": "trim", "dst": "stringTrim"},
    {"src": "trimStart", "dst": "stringTrim"},
    {"src": "trimEnd", "dst": "stringTrim"},
    {"src": "concat", "dst": "stringConcat"},
    {"src": "slice"},
    {"src": "replace"},
    {"src": "aloneMethod", "allowedWithoutCallee": True},
]


def default_config(**kw):
    c = {"csiMethods": [dict(m) for m in DEFAULT_METHODS], "localVarPrefix": "test",
         "telemetryVerbosity": "DEBUG", "literals": True, "chainSourceMap": False, "comments": False}
    c.update(kw)
    return c


# ------------------------------------------------------------------------------------------
# corpora
# ------------------------------------------------------------------------------------------
def rust_string_literals_after(text, marker):
    """Yield the Rust string literal following each occurrence of marker."""
    i = 0
    while True:
        i = text.find(marker, i)
        if i < 0:
            return
        j = i + len(marker)
        while j < len(text) and text[j] in " \n\t":
            j += 1
        if text.startswith('r#"', j):
            k = text.find('"#', j + 3)
            yield text[j + 3:k]
            i = k
        elif j < len(text) and text[j] == '"':
            k = j + 1
            buf = []
            while k < len(text) and text[k] != '"':
                if text[k] == "\\":
                    n = text[k + 1]
                    if n == "n":
                        buf.append("\n")
                    elif n == "t":
                        buf.append("\t")
                    elif n == "\n":
                        k += 2
                        while k < len(text) and text[k] in " \t\n":
                            k += 1
                        continue
                    else:
                        buf.append(n)
                    k += 2
                else:
                    buf.append(text[k])
                    k += 1
            yield "".join(buf)
            i = k
        else:
            i = j


def repo_test_snippets():
    out = []
    d = os.path.join(REPO, "src", "tests")
    for f in sorted(os.listdir(d)):
        if f.endswith(".rs"):
            t = open(os.path.join(d, f)).read()
            for s in rust_string_literals_after(t, "let original_code ="):
                out.append(s)
    return out


def corpus_files(limit=None):
    d = os.path.join(ROOT, "corpus")
    out = []
    for root, dirs, files in os.walk(d):
        dirs.sort()
        for f in sorted(files):
            if f.endswith((".js", ".mjs", ".cjs")):
                out.append(os.path.join(root, f))
    return out[:limit] if limit else out


# ------------------------------------------------------------------------------------------
# evidence / replay
# ------------------------------------------------------------------------------------------
def write_evidence(pid, ev):
    os.makedirs(os.path.join(ROOT, "evidence"), exist_ok=True)
    p = os.path.join(ROOT, "evidence", pid + ".json")
    json.dump(ev, open(p, "w"), indent=1, sort_keys=True)
    return p


def write_replay(pid, obj):
    os.makedirs(os.path.join(ROOT, "replays"), exist_ok=True)
    h = hashlib.sha256(json.dumps(obj, sort_keys=True).encode()).hexdigest()[:12]
    p = os.path.join(ROOT, "replays", "%s-%s.json" % (pid, h))
    json.dump(obj, open(p, "w"), indent=1, sort_keys=True)
    return p
