// Differential execution: runs an input program and its rewritten output in two fresh vm contexts whose
// free variables are observable Proxies (every get / set / has / delete / call / construct / coercion /
// iteration is logged), and compares outcome and log.
// stdin: JSON lines {id, input, output, kind:'script', exempt_coercion_order:bool}; stdout {id, equal, why, logs?}
const vm = require('vm')
// a program under test may leave a rejected promise behind (dynamic import without a loader, async code): never fatal for the driver
process.on('unhandledRejection', () => {})
process.on('uncaughtException', () => {})

function makeWorld (opts) {
  const log = []
  let counter = 0
  const names = new WeakMap()
  const store = new Map() // "name.prop" -> value set by the program
  const children = new Map()
  const desc = (v, depth = 0) => {
    if (v === null) return 'null'
    const t = typeof v
    if (t === 'undefined') return 'undefined'
    if (t === 'string') return JSON.stringify(v.length > 80 ? v.slice(0, 80) + '…' : v)
    if (t === 'number' || t === 'boolean' || t === 'bigint') return String(v)
    if (t === 'symbol') return v.toString()
    if (names.has(v)) return '<' + names.get(v) + '>'
    if (depth > 2) return t === 'function' ? 'fn' : 'obj'
    if (Array.isArray(v)) return '[' + v.slice(0, 8).map(x => desc(x, depth + 1)).join(',') + (v.length > 8 ? ',…' : '') + ']'
    if (t === 'function') return 'fn:' + (v.name || '')
    try {
      const keys = Object.keys(v).slice(0, 6)
      return '{' + keys.map(k => k + ':' + desc(v[k], depth + 1)).join(',') + '}'
    } catch (e) { return 'obj!' }
  }
  let sandboxRef = null
  let mutations = 0
  const mutate = (name) => {
    // `m` is a mutator: touching it reassigns the simple globals, so a read moved across it shows
    if (sandboxRef && (name === 'm' || name.startsWith('m.') || name.startsWith('m('))) {
      mutations++
      for (const v of ['a', 'b', 'x', 'y', 's', 'k']) sandboxRef[v] = child(v + "'" + mutations)
      sandboxRef.str = 'mutated' + mutations
    }
  }
  const mk = (name) => {
    const target = function () {}
    const p = new Proxy(target, {
      get (t, prop, recv) {
        if (prop === Symbol.toPrimitive) {
          return function (hint) { log.push('coerce ' + name + ' ' + hint); if (!opts.exempt) mutate(name); return hint === 'number' ? (name.length % 7) : '«' + name + '»' }
        }
        if (prop === Symbol.iterator) {
          return function () { log.push('iterate ' + name); return [child(name + '[0]'), 'it1'][Symbol.iterator]() }
        }
        if (typeof prop === 'symbol') return undefined
        if (prop === 'then') return undefined
        if (prop === 'call' || prop === 'apply' || prop === 'bind') return Function.prototype[prop]   // H2: reading .call/.apply of a callable is silent
        log.push('get ' + name + '.' + prop)
        mutate(name)
        const key = name + '.' + prop
        if (store.has(key)) return store.get(key)
        if (prop === 'length') return 3
        if (prop === 'call' || prop === 'apply' || prop === 'bind') return Function.prototype[prop]
        if (prop === 'throws') throw new TypeError('getter ' + key)
        return child(key)
      },
      set (t, prop, value) { log.push('set ' + name + '.' + String(prop) + ' = ' + desc(value)); store.set(name + '.' + String(prop), value); return true },
      has (t, prop) { log.push('has ' + name + '.' + String(prop)); return true },
      deleteProperty (t, prop) { log.push('delete ' + name + '.' + String(prop)); store.delete(name + '.' + String(prop)); return true },
      apply (t, thisArg, args) {
        const k = ++counter
        log.push('call ' + name + ' this=' + desc(thisArg) + ' (' + args.map(a => desc(a)).join(', ') + ')')
        mutate(name)
        if (name.endsWith('.boom') || name === 'boom') throw new RangeError('boom ' + k)
        if (name.endsWith('.str')) return 'str' + k
        if (name.endsWith('.num')) return k
        if (name.endsWith('.undef')) return undefined
        if (name.endsWith('.nul')) return null
        return child(name + '()#' + k)
      },
      construct (t, args) { const k = ++counter; log.push('new ' + name + ' (' + args.map(a => desc(a)).join(', ') + ')'); return child('new ' + name + '#' + k) },
      ownKeys () { log.push('keys ' + name); return ['prototype'] },
      getOwnPropertyDescriptor (t, prop) { return Reflect.getOwnPropertyDescriptor(t, prop) }
    })
    names.set(p, name)
    return p
  }
  const child = (name) => { if (!children.has(name)) children.set(name, mk(name)); return children.get(name) }
  return { log, child, desc, bind (sb) { sandboxRef = sb } }
}

const FREE = ['a', 'b', 'c', 'o', 'f', 'g', 's', 'k', 'r', 'q', 'x', 'y', 'z', 'arr', 'fn', 'obj', 'F', 'B', 'cond', 'tag', 'aloneMethod', 'f2', 'log', 'table', 'w', 'h', 'd', 'v']

function runOne (code, opts) {
  const w = makeWorld(opts)
  const sandbox = { console: { log () {} } }
  for (const n of FREE) sandbox[n] = w.child(n)
  sandbox.nul = null; sandbox.undef = undefined; sandbox.str = 'plain string'; sandbox.num = 41; sandbox.i = 0
  sandbox.P = { prototype: { trim: String.prototype.trim, concat: String.prototype.concat, substring: String.prototype.substring, slice: String.prototype.slice, replace: String.prototype.replace, toUpperCase: String.prototype.toUpperCase, padStart: String.prototype.padStart, trimStart: String.prototype.trimStart } }
  sandbox.LOG = (x) => { w.log.push('LOG ' + w.desc(x)) }
  sandbox.m = w.child('m')
  w.bind(sandbox)
  const ctx = vm.createContext(sandbox)
  let outcome
  try {
    const script = new vm.Script(code, { filename: 'prog.js' })
    const v = script.runInContext(ctx, { timeout: 2000 })
    outcome = 'value ' + w.desc(v)
    if (typeof ctx.main === 'function') {
      // main runs inside the context's own timeout: a loop whose condition is an (always truthy) proxy must not hang the driver
      try { outcome = 'main ' + w.desc(vm.runInContext('main()', ctx, { timeout: 1500 })) } catch (e) {
        outcome = (e && e.code === 'ERR_SCRIPT_EXECUTION_TIMEOUT') ? 'main timeout' : 'main throws ' + (e && e.constructor && e.constructor.name)
      }
    }
    if (typeof ctx.result !== 'undefined') outcome += ' result=' + w.desc(ctx.result)
  } catch (e) {
    outcome = 'throws ' + (e && e.constructor && e.constructor.name)
    if (e && e.code === 'ERR_SCRIPT_EXECUTION_TIMEOUT') outcome = 'timeout'
  }
  return { outcome, log: w.log }
}

function canon (log, exempt) {
  if (!exempt) return { seq: log, bag: [] }
  // the moment a template substitution is coerced relative to later substitutions is exempt (a later
  // substitution that throws even prevents the coercion): coercion events are not compared, and in
  // such programs coercions do not mutate the world
  return { seq: log.filter(l => !l.startsWith('coerce ')), bag: [] }
}

const rl = require('readline').createInterface({ input: process.stdin })
rl.on('line', (line) => {
  if (!line.trim()) return
  const job = JSON.parse(line)
  const a = runOne(job.input, { exempt: !!job.exempt_coercion_order })
  const b = runOne(job.output, { exempt: !!job.exempt_coercion_order })
  const ca = canon(a.log, job.exempt_coercion_order); const cb = canon(b.log, job.exempt_coercion_order)
  let why = null
  if (a.outcome !== b.outcome) why = 'outcome: input ' + a.outcome + ' / output ' + b.outcome
  else {
    const n = Math.max(ca.seq.length, cb.seq.length)
    for (let i = 0; i < n; i++) {
      if (ca.seq[i] !== cb.seq[i]) { why = 'event ' + i + ': input ' + ca.seq[i] + ' / output ' + cb.seq[i]; break }
    }
    if (!why && JSON.stringify(ca.bag) !== JSON.stringify(cb.bag)) why = 'coercions differ: input ' + ca.bag.slice(0, 4) + ' / output ' + cb.bag.slice(0, 4)
  }
  const out = { id: job.id, equal: !why, why, outcome: a.outcome, events: a.log.length }
  if (why) { out.input_log = a.log.slice(0, 40); out.output_log = b.log.slice(0, 40) }
  process.stdout.write(JSON.stringify(out) + '\n')
})
