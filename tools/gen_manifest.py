#!/usr/bin/env python3
"""Writes MANIFEST.json from the table below (kept in one place so it is always valid)."""
import json, os, subprocess
ROOT = os.path.dirname(os.path.dirname(os.path.abspath(__file__)))
props = [json.loads(l) for l in open(os.path.join(ROOT, "properties.jsonl"))]
hooks_commit = subprocess.check_output(["git", "-C", "/repo", "log", "--format=%h", "--grep=verif hooks"]).decode().split()

CLAIMS = {}
def claim(pid, text, note, technique, design_ref, category="proof"):
    CLAIMS[pid] = dict(text=text, note=note, technique=technique, design_ref=design_ref, category=category)

exec(open(os.path.join(ROOT, "tools", "claims.py")).read())

checks = []
na = []
for p in props:
    pid = p["id"]
    if pid in CLAIMS and os.path.exists(os.path.join(ROOT, "checks", pid + ".py")):
        c = CLAIMS[pid]
        checks.append({
            "property_id": pid,
            "quick_cmd": "./vcheck check %s --tier quick" % pid,
            "thorough_cmd": "./vcheck check %s --tier thorough" % pid,
            "evidence_file": "/verif/evidence/%s.json" % pid,
            "replay_cmd_template": "./vcheck replay {path}",
            "engine": "coq-model",
            "level_claimed": {"category": c["category"], "text": c["text"], "design_ref": c["design_ref"]},
            "level_note": c["note"],
            "technique": c["technique"],
        })
    else:
        na.append({"property_id": pid, "reason": "not claimed yet: its check is still under construction in this round (planned in DESIGN.md section 5); nothing is asserted about it"})
m = {
    "version": 1,
    "setup_cmd": "./vcheck setup",
    "hooks": {
        "guard": "datadog_dd_native_iast_rewriter_js_verif",
        "enable": "RUSTFLAGS=\"--cfg datadog_dd_native_iast_rewriter_js_verif\" cargo build --offline in /verif/harness (its [lib] path is /repo/src/lib.rs)",
        "baseline_off_cmd": "cd /repo && cargo test --workspace --no-fail-fast --offline",
        "source_commits": hooks_commit,
        "add_only": True,
    },
    "engines": [{"name": "coq-model", "path": "/verif/coq", "serves_properties": [c["property_id"] for c in checks],
                 "kind_free_text": "Coq 8.16 development: hand-written executable model of the rewriter + specification-side validators + theorems; extracted to OCaml and run against a native harness built from /repo (correspondence), validators also run on the implementation's own trees"}],
    "checks": checks,
    "not_applicable": na,
    "notes": "All checks rebuild from /repo's working tree (translator -> coq/Generated.v, harness, Coq .vo build, extraction). See DESIGN.md.",
}
json.dump(m, open(os.path.join(ROOT, "MANIFEST.json"), "w"), indent=1)
print("claimed:", [c["property_id"] for c in checks], "not claimed:", [n["property_id"] for n in na])
