#!/usr/bin/env python3
"""Detection matrix: every seeded change (seeded/<id>/patch.diff) against every claimed check (quick tier).
Uses $VERIF_REPO (default /repo) as the repository to patch; writes seed_matrix.json and prints a table.
Meant for `vp run --with-repo -- sh -c 'VERIF_REPO=$VP_RUN_REPO python3 tools/seed_matrix.py'`."""
import json, os, subprocess, sys, time
ROOT = os.path.dirname(os.path.dirname(os.path.abspath(__file__)))
REPO = os.environ.get("VERIF_REPO", "/repo")
checks = [c["property_id"] for c in json.load(open(os.path.join(ROOT, "MANIFEST.json")))["checks"]]
only = sys.argv[1:] or sorted(os.listdir(os.path.join(ROOT, "seeded")))
env = dict(os.environ, VERIF_REPO=REPO)
matrix = {}
def run_checks():
    row = {}
    for pid in checks:
        p = subprocess.run(["./vcheck", "check", pid, "--tier", "quick"], cwd=ROOT, capture_output=True, text=True, env=env)
        v = [l for l in p.stdout.splitlines() if l.startswith("VIOLATION")]
        row[pid] = "-" if p.returncode == 0 and not v else ("X" if any("no-failing-input-found" not in l for l in v) else "x")
    return row
print("baseline (no patch)...", flush=True)
matrix["baseline"] = run_checks()
print("baseline", " ".join("%s:%s" % kv for kv in matrix["baseline"].items()), flush=True)
for m in only:
    patch = os.path.join(ROOT, "seeded", m, "patch.diff")
    t = time.time()
    r = subprocess.run(["patch", "-p1", "-s", "-i", patch], cwd=REPO, capture_output=True, text=True)
    if r.returncode != 0:
        print(m, "patch failed", r.stdout[-200:], r.stderr[-200:], flush=True)
        subprocess.run(["patch", "-R", "-p1", "-s", "-i", patch], cwd=REPO, capture_output=True)
        continue
    try:
        matrix[m] = run_checks()
    finally:
        subprocess.run(["patch", "-R", "-p1", "-s", "-i", patch], cwd=REPO, capture_output=True)
    print("%-4s %s  (%.0fs)" % (m, " ".join("%s:%s" % kv for kv in matrix[m].items()), time.time() - t), flush=True)
json.dump(matrix, open(os.path.join(ROOT, "seed_matrix.json"), "w"), indent=1)
print("legend: X = violation with a failing input, x = broken obligation/correspondence without failing input, - = silent")
