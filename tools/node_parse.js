// Compile-only syntax check by V8: stdin JSON lines {id, code, kind: 'script'|'module'}; stdout {id, ok, error}
// run with: node --experimental-vm-modules --no-warnings
const vm = require('vm')
const rl = require('readline').createInterface({ input: process.stdin })
rl.on('line', (line) => {
  if (!line.trim()) return
  const { id, code, kind } = JSON.parse(line)
  let ok = true; let error = null
  try {
    if (kind === 'module') { new vm.SourceTextModule(code, { identifier: id }) } else { new vm.Script(code, { filename: id }) }
  } catch (e) { ok = false; error = String(e && e.name) + ': ' + String(e && e.message) }
  process.stdout.write(JSON.stringify({ id, ok, error }) + '\n')
})
