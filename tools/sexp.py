"""Minimal reader for the harness' S-expression dump of swc trees (see harness/src/main.rs).
Node = ("K", type, lo, hi, children) | ("O", children) | ("L", children) | None | True | False | ("S", text) | ("#", text)"""
import re

_tok = re.compile(r'\(K ([A-Za-z_]+) (\d+) (\d+)|\(O|\(L|\)|N|T|F|"((?:[^"])*)"|#([^\s()]+)|\s+')


def _unesc(s):
    return re.sub(r"\\x([0-9a-f]{2})", lambda m: chr(int(m.group(1), 16)), s).encode("latin-1").decode("utf-8", "replace")


def parse(text):
    stack = [[]]
    heads = []
    pos = 0
    n = len(text)
    while pos < n:
        m = _tok.match(text, pos)
        if not m:
            raise ValueError("bad sexp at %d: %r" % (pos, text[pos:pos + 30]))
        pos = m.end()
        t = m.group(0)
        if t[0] == "(":
            if t[1] == "K":
                heads.append(("K", m.group(1), int(m.group(2)), int(m.group(3))))
            else:
                heads.append((t[1],))
            stack.append([])
        elif t == ")":
            kids = stack.pop()
            h = heads.pop()
            stack[-1].append(h + (kids,))
        elif t == "N":
            stack[-1].append(None)
        elif t == "T":
            stack[-1].append(True)
        elif t == "F":
            stack[-1].append(False)
        elif t[0] == '"':
            stack[-1].append(("S", _unesc(m.group(4))))
        elif t[0] == "#":
            stack[-1].append(("#", m.group(5)))
    return stack[0][0]


STMT_SUFFIX = ("Statement", "Declaration")


def identifiers(tree):
    """Pre-order list of dicts for every Identifier node (not IdentName): sym, lo, hi, stmt (lo,hi)|None, block (lo,hi)|None."""
    out = []
    work = [(tree, None, None)]
    while work:
        node, stmt, block = work.pop()
        if not isinstance(node, tuple):
            continue
        tag = node[0]
        if tag == "K":
            _, ty, lo, hi, kids = node
            if ty == "Identifier":
                sym = kids[1][1] if len(kids) > 1 and isinstance(kids[1], tuple) and kids[1][0] == "S" else None
                out.append({"sym": sym, "lo": lo, "hi": hi, "stmt": stmt, "block": block})
                continue
            if lo > 0 and ty.endswith(STMT_SUFFIX) and ty != "VariableDeclarator":
                stmt = (lo, hi)
            if lo > 0 and ty == "BlockStatement":
                block = (lo, hi)
        else:
            kids = node[-1]
        if tag in ("S", "#"):
            continue
        for k in reversed(kids):
            work.append((k, stmt, block))
    return out


def nodes_of_type(tree, types):
    out = []
    work = [tree]
    while work:
        node = work.pop()
        if not isinstance(node, tuple) or node[0] in ("S", "#"):
            continue
        if node[0] == "K" and node[1] in types:
            out.append(node)
        for k in reversed(node[-1]):
            work.append(k)
    return out


class Text:
    """Byte offsets (swc BytePos, 1-based) to 0-based (line, UTF-16 column)."""
    def __init__(self, s):
        self.b = s.encode("utf-8")
        self.starts = [0]
        for i, ch in enumerate(self.b):
            if ch == 0x0a:
                self.starts.append(i + 1)
        # swc also breaks lines at \r (alone),  ,   ? -- handled by the caller through tolerance

    def line_col(self, bytepos):
        off = bytepos - 1
        import bisect
        li = bisect.bisect_right(self.starts, off) - 1
        seg = self.b[self.starts[li]:off].decode("utf-8", "replace")
        col = len(seg.encode("utf-16-le")) // 2
        return li, col

    def nlines(self):
        return len(self.starts)

    def line_len16(self, li):
        end = self.starts[li + 1] - 1 if li + 1 < len(self.starts) else len(self.b)
        return len(self.b[self.starts[li]:end].decode("utf-8", "replace").encode("utf-16-le")) // 2
