// Runs the emitted prologue (the text between the directive prologue and the program) in fresh
// realms: without a hook object every configured name must become a pass-through function;
// an existing hook object must never be overwritten or extended.
// stdin: JSON lines {id, prologue, dsts}; stdout: JSON lines {id, ok, why}
const vm = require('vm')
const rl = require('readline').createInterface({ input: process.stdin })
rl.on('line', (line) => {
  if (!line.trim()) return
  const { id, prologue, dsts } = JSON.parse(line)
  let ok = true; let why = ''
  try {
    const c1 = vm.createContext({})
    vm.runInContext(prologue, c1)
    const h = vm.runInContext('typeof _ddiast === "object" ? _ddiast : undefined', c1)
    if (!h) { ok = false; why = 'no _ddiast object after the prologue' } else {
      for (const d of dsts) {
        const marker = {}
        if (typeof h[d] !== 'function') { ok = false; why = 'hook ' + d + ' is not defined by the prologue'; break }
        if (h[d](marker, 1, 2) !== marker) { ok = false; why = 'hook ' + d + ' is not a pass-through'; break }
      }
    }
    // run twice: second run must keep the same object
    if (ok) {
      vm.runInContext(prologue, c1)
      if (vm.runInContext('_ddiast', c1) !== h) { ok = false; why = 'second run replaced the hook object' }
    }
    if (ok) {
      const real = { plusOperator: function real () { return 'real' } }
      const c2 = vm.createContext({ _ddiast: real })
      vm.runInContext(prologue, c2)
      const h2 = vm.runInContext('_ddiast', c2)
      if (h2 !== real || Object.keys(real).length !== 1 || real.plusOperator() !== 'real') { ok = false; why = 'an existing hook object was overwritten or changed' }
    }
    if (ok) {
      // hook object installed on globalThis by the tracer (not as a declared variable)
      const c3 = vm.createContext({})
      vm.runInContext('globalThis._ddiast = { marker: 1 }', c3)
      vm.runInContext(prologue, c3)
      if (vm.runInContext('Object.keys(_ddiast).join()', c3) !== 'marker') { ok = false; why = 'an existing global hook object was changed' }
    }
    if (ok) {
      // strict-mode file: the prologue must still work after 'use strict'
      const c4 = vm.createContext({})
      vm.runInContext("'use strict';\n" + prologue, c4)
      if (vm.runInContext('typeof _ddiast', c4) !== 'object') { ok = false; why = 'prologue does not define the hook object in a strict script' }
    }
  } catch (e) { ok = false; why = 'prologue threw: ' + e }
  process.stdout.write(JSON.stringify({ id, ok, why }) + '\n')
})
