# per-property claims (exec'd by gen_manifest.py)
claim("C15",
      "Theorems (Coq, no axioms) about the model's status/telemetry bookkeeping for every verbosity and state; the model is tied to the code by full-output correspondence (status, count, tags, whole output tree) on generated programs x configurations, and the specification-side hook-site counter (extracted from Coq) is run on the implementation's own output trees for every case.",
      "Trusted: Coq kernel, extraction, OCaml driver, native harness and serde dump; the model is hand-written (validated by correspondence, not derived from the Rust). Known finding C15-compound-target-dup is excluded by a syntactic class.",
      "Coq theorems about an executable model + extracted-model/implementation correspondence + validators on implementation output",
      "DESIGN.md section 5 (C15)")
