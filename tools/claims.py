# per-property claims (exec'd by gen_manifest.py)
NOTE = ("Trusted: Coq 8.16.1 kernel, extraction (ExtrOcamlBasic/ExtrOcamlString), the OCaml driver, the native harness and swc's serde dump; "
        "the model is hand-written and tied to /repo by the correspondence on this property's projection, by the regenerated constants "
        "(gen/extract_constants.py -> coq/Generated.v) and by running the extracted specification functions on the implementation's own trees. ")
TECH = "Coq theorems about an executable model and about specification-side validators + extracted-model/implementation correspondence + validators on implementation output"

claim("C02",
      "Theorems: erasing a hook call yields its first argument; untouched code is a fixed point of the eraser (induction over the tree); the eraser is run on the implementation's output tree, and the printed content must re-parse to the same tree.",
      NOTE + "Reading: x += y is compared as x = x + y; swc's printer is exercised, not proved.", TECH, "DESIGN.md section 5 (C02)")
claim("C03",
      "Theorems: operand handling pushes exactly the expression standing in the operation (literal, kept identifier or fresh temporary) for every operand tree and state; for binary + the specification-side reader of hook calls finds arguments = operands in order; the same reader runs on every hook call of the implementation's output.",
      NOTE + "Known findings (operand that is a + left in place, apply holes, apply spread) are excluded by class; run-time value half assumes re-reading a temporary/identifier is stable (H1, H6).", TECH, "DESIGN.md section 5 (C03)")
claim("C04",
      "Theorems: a + with an operand that is neither literal nor a + left in place is always wrapped, and the wrapper is recognised under the operation's span; required sites are computed from the input by the extracted specification and looked up in the implementation's output.",
      NOTE + "Known finding apply-nonarray-args excluded by class; readings of DESIGN 5.0.", TECH, "DESIGN.md section 5 (C04)")
claim("C05",
      "Theorems: with nothing enabled every program is NotModified with count 0 (induction over the whole traversal); every name dereferenced on the hook namespace is a configured replacement name; bare calls need the flag; to_config defaults. Checked on the code: hook names and (operation -> name) pairs of the implementation's output, twin configurations (locality), the real to_config vs the model, the prologue executed in Node.",
      NOTE + "The prologue's JS semantics is exercised, not proved; Unicode upper-casing modelled as ASCII.", TECH, "DESIGN.md section 5 (C05)")
claim("C06",
      "Theorems: allocation gives a fresh, registered, once-assigned temporary and moves the counter; names are injective in the counter; the injected let is recognised by the specification; a reserved-prefix user identifier marks the provider. The extracted hygiene checker runs on the implementation's output (declared, same activation, assigned before read, no clobbering, clashes) with planted reserved identifiers.",
      NOTE + "Known finding temps-cross-function-boundary (parameter defaults / class fields of functions declared in a block) excluded by class.", TECH, "DESIGN.md section 5 (C06)")
claim("C07",
      "Theorems: the operation visitor maps directives to directives and creates none (induction over the traversal via root-kind stability); the injected let and the file prologue are inserted right after the unchanged directive prologue. The extracted validator compares directive prologues block by block on the implementation's output.",
      NOTE + "swc's printer emits directives verbatim (exercised by C08).", TECH, "DESIGN.md section 5 (C07)")
claim("C12",
      "Theorems: the prologue is inserted iff the status is Modified; results are Modified or NotModified only; an untouched operation never changes status. Checked on the code: status vs content vs hook sites vs prologue vs trailer for every case, and main.js handing back the caller's text through a stand-in native module replaying real results.",
      NOTE + "wasm glue not exercised.", TECH, "DESIGN.md section 5 (C12)")
claim("C15",
      "Theorems (Coq, no axioms) about the model's status/telemetry bookkeeping for every verbosity and state, and that an instrumented + adds exactly one hook site; the model is tied to the code by correspondence (status, count, tags) on generated programs x configurations, and the specification-side hook-site counter (extracted from Coq) is run on the implementation's own output trees for every case.",
      NOTE + "Known finding C15-compound-target-dup is excluded by a syntactic class.", TECH, "DESIGN.md section 5 (C15)")
claim("C09",
      "Theorems: base64-VLQ decode(encode) round trip for every integer and every segment; lookup on a sorted map is the greatest lower bound. The repository's real trailer is decoded with the extracted decoder and every identifier of the printed content (aligned with the output tree through swc's re-parse) is looked up with the extracted glb lookup and binary search: copied identifiers must map exactly to their original line/column, injected ones into the line span of their statement or block.",
      NOTE + "partial: where mappings are emitted is swc's printer contract (exercised on every case, not proved); columns are UTF-16 units.", TECH, "DESIGN.md section 5 (C09)")
claim("C10",
      "Theorems: lookup in the chained map = lookup in the rewrite map then in the original map whenever every token resolves; in general the chained map is the composition restricted to resolving tokens; nothing is invented (all unbounded). On the code: the embedded map must equal `chain R O` computed by the extracted function from the rewrite map and the generated original map, for inline/external/missing/unreadable/bad/index/empty/duplicate comments, chaining and comments on/off; exactly one trailer; printed text never edited; literals that look like the comment intact.",
      NOTE + "sourcemap crate (decoder, lookup_token, serializer incl. its duplicate-token elision) and base64 are trusted and exercised.", TECH, "DESIGN.md section 5 (C10)")
claim("C11",
      "Theorems: findEntry's binary search returns the greatest mapping at or before the position on every sorted list; the rewritten-maps cache, as a state machine over any history, holds exactly the map of the most recent rewrite (none if it was not modified); unknown files are the identity. On the code: rewritten throwing programs are run in Node through main.js's CacheRewriter and both prepareStackTrace paths, over rewrite histories; findEntry (JS) is compared with the extracted find_entry/lookup on random maps.",
      NOTE + "partial: V8 call sites, eval origins and column conventions are exercised, not modelled; main.js runs against a stand-in native module replaying real results.", TECH, "DESIGN.md section 5 (C11)")
claim("C13",
      "Theorems: three families of the repository's partial operations (argument indexing of .call/.apply, the apply-array unwraps, the comment-URL slice) are modelled panic-faithfully and never produce Panic, for all inputs, and the panic-faithful function equals the executable model's. Every partial operation of src/ is inventoried on each run and must match the committed, justified table including a hash of its enclosing function; the real rewriter then runs under catch_unwind and a watchdog on library code, mutation and byte streams, hostile file names, source-map references and configurations.",
      NOTE + "partial: panics/hangs inside swc, sourcemap, base64 and stack exhaustion are searched for, not excluded; the justifications in panic_sites.json are by inspection except the three proved families; wasm-only glue not exercised.", TECH, "DESIGN.md section 5 (C13)")
claim("C14",
      "Theorems: the generated length window is the documented one (10 < bytes <= 256); every reported literal lies in it; each (value, position) is reported once, also for literals cloned into hook arguments; nothing under require('<lit>')/new RegExp('<lit>') is reported; disabled => no report (induction over the tree). On the code: the implementation's report must equal the extracted collector applied to the INPUT tree (value, 1-based line, column, name) and the collector must find the same literals in the output trees of model and implementation.",
      NOTE + "lengths in UTF-8 bytes, columns in code points; only string-literal expressions count (module sources and string keys are not expressions).", TECH, "DESIGN.md section 5 (C14)")
claim("C08",
      "Theorems: the program keeps its root (Script/Module) tag; the block visitor keeps every node kind; the operation visitor keeps every kind other than the instrumented operations themselves (all statements, declarations, patterns, literals) at every depth; injected sequences are parenthesised. On the code: every accepted modified output of 150 real library files, the repository's resources and generated programs must re-parse with the rewriter's own parser to the printed tree and the same kind, compile in V8 as script/module like the input, and end with the trailer.",
      NOTE + "partial: 'the printed text parses back to the tree' is swc's printer contract, exercised on every case, not proved.", TECH, "DESIGN.md section 5 (C08)")
claim("C16",
      "Theorem: in the model a rewriter's only state is its configuration, so the n-th result of any history equals a fresh single call (thin by construction). The property is carried by the history correspondence: every call of seeded histories (modified / not-modified / syntax-error / cancelled, several files, source-map comments with chaining, repeated calls, second and similar rewriters in the same process) on the real code is compared with the same call made alone in a fresh process, and the history is repeated in another process.",
      NOTE + "the theorem says nothing about process-level state of the Rust code (thread-locals, statics, swc globals): that is what the history runs exercise.", TECH, "DESIGN.md section 5 (C16)")
