#!/usr/bin/env python3
"""Render seed_matrix.json (tools/seed_matrix.py) into DESIGN.md between the matrix markers and
record detected_by in seeded/<id>/meta.json.   usage: matrix_to_md.py <seed_matrix.json> [commit] [<seed_diagonal.json> <commit2>]"""
import json, os, re, sys
ROOT = os.path.dirname(os.path.dirname(os.path.abspath(__file__)))
m = json.load(open(sys.argv[1]))
commit = sys.argv[2] if len(sys.argv) > 2 else "?"
cols = sorted(next(iter(m.values())).keys())
lines = ["<!-- matrix:begin -->", "```", "(quick tier, /verif commit %s)" % commit,
         "%-9s %s" % ("", " ".join(c[1:] for c in cols))]
for row in ["baseline"] + sorted(k for k in m if k != "baseline"):
    if row in m:
        lines.append("%-9s %s" % (row, "  ".join(m[row][c] for c in cols)))
if len(sys.argv) > 4:
    # the diagonal (every change against the check of its own property) run again at a later commit, new changes included
    d = json.load(open(sys.argv[3]))
    lines += ["", "diagonal at /verif commit %s (every change x the check of its own property; X = failing input, x = obligation only, - = silent)" % sys.argv[4]]
    items = sorted(d.items())
    for i in range(0, len(items), 10):
        lines.append("  " + "  ".join("%s:%s" % kv for kv in items[i:i + 10]))
    lines.append("  caught with a failing input: %d of %d; obligation only: %s; silent: %s" % (
        sum(1 for v in d.values() if v == "X"), len(d), [k for k, v in items if v == "x"] or "none", [k for k, v in items if v == "-"] or "none"))
lines += ["```", "<!-- matrix:end -->"]
p = os.path.join(ROOT, "DESIGN.md")
s = open(p).read()
block = "\n".join(lines)
if "MATRIX_PLACEHOLDER" in s:
    s = s.replace("MATRIX_PLACEHOLDER", block)
else:
    s = re.sub(r"<!-- matrix:begin -->.*?<!-- matrix:end -->", lambda _: block, s, flags=re.S)
open(p, "w").write(s)
for row, v in m.items():
    mp = os.path.join(ROOT, "seeded", row, "meta.json")
    if os.path.exists(mp) and isinstance(v, dict):
        meta = json.load(open(mp))
        meta["detected_by_quick_checks"] = [c for c in cols if v[c] == "X"]
        meta["broken_without_input"] = [c for c in cols if v[c] == "x"]
        meta["matrix_commit"] = commit
        json.dump(meta, open(mp, "w"), indent=1)
print(block)
