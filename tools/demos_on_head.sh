#!/bin/bash
# Every kept demonstration must pass on the unchanged tree (/repo HEAD): 4 scratch worktrees under /tmp, removed afterwards.
# usage: demos_on_head.sh ; prints one line per seeded change whose demonstration does NOT pass, then "done"
set -u
R=/tmp/demochk; rm -rf $R; mkdir -p $R; git -C /repo worktree prune
ls -d /verif/seeded/*/ | xargs -n1 basename > $R/all.txt
split -n l/4 -d $R/all.txt $R/part
for k in 0 1 2 3; do
  (
    W=$R/w$k; git -C /repo worktree add -q --detach $W HEAD || exit 2
    cp -r /repo/target $W/target 2>/dev/null
    cd $W
    for id in $(cat $R/part0$k); do
      D=/verif/seeded/$id/demo.diff
      git apply $D 2>/dev/null || { echo "$id: demo does not apply"; git checkout -q -- . ; git clean -fdq -e target; continue; }
      JS=$(grep -E '^\+\+\+ b/.*\.js$' $D | sed 's#^+++ b/##')
      if [ -n "$JS" ]; then
        for f in $JS; do node $f >/dev/null 2>&1 || echo "$id: demo fails on HEAD ($f)"; done
      else
        out=$(CARGO_NET_OFFLINE=true cargo test seeded_demo --offline -j 4 2>&1 | grep -E "^test result" | head -1)
        case "$out" in *"ok."*) ;; *) echo "$id: demo fails on HEAD: $out";; esac
      fi
      git checkout -q -- . ; git clean -fdq -e target
    done
    cd /; git -C /repo worktree remove --force $W
  ) &
done
wait
rm -rf $R; git -C /repo worktree prune
echo done
