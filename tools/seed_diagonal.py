#!/usr/bin/env python3
"""Diagonal of the detection matrix at the current commit: every seeded change against the check of ITS OWN property (quick
tier). Uses $VERIF_REPO (default /repo); writes seed_diagonal.json. Meant for
`vp run --with-repo -- sh -c 'VERIF_REPO=$VP_RUN_REPO python3 tools/seed_diagonal.py'`."""
import json, os, subprocess, sys, time
ROOT = os.path.dirname(os.path.dirname(os.path.abspath(__file__)))
REPO = os.environ.get("VERIF_REPO", "/repo")
only = sys.argv[1:] or sorted(os.listdir(os.path.join(ROOT, "seeded")))
env = dict(os.environ, VERIF_REPO=REPO)
res = {}
def run(pid):
    p = subprocess.run(["./vcheck", "check", pid, "--tier", "quick"], cwd=ROOT, capture_output=True, text=True, env=env)
    v = [l for l in p.stdout.splitlines() if l.startswith("VIOLATION")]
    return "-" if p.returncode == 0 and not v else ("X" if any("no-failing-input-found" not in l for l in v) else "x")
for m in only:
    patch = os.path.join(ROOT, "seeded", m, "patch.diff")
    pid = m[:3]
    t = time.time()
    r = subprocess.run(["patch", "-p1", "-s", "-i", patch], cwd=REPO, capture_output=True, text=True)
    if r.returncode != 0:
        print(m, "patch failed", flush=True)
        subprocess.run(["patch", "-R", "-p1", "-s", "-i", patch], cwd=REPO, capture_output=True)
        res[m] = "patch-failed"
        continue
    try:
        res[m] = run(pid)
    finally:
        subprocess.run(["patch", "-R", "-p1", "-s", "-i", patch], cwd=REPO, capture_output=True)
    print("%-5s %s:%s (%.0fs)" % (m, pid, res[m], time.time() - t), flush=True)
json.dump(res, open(os.path.join(ROOT, "seed_diagonal.json"), "w"), indent=1)
print("missed:", [m for m, v in res.items() if v == "-"], " obligation only:", [m for m, v in res.items() if v == "x"])
