#!/usr/bin/env python3
"""Apply a seeded change to /repo, run the given checks (quick tier), undo the change.
usage: seed_eval.py <patch.diff> <ID> [<ID> ...]"""
import subprocess, sys, os, time
patch = sys.argv[1]; ids = sys.argv[2:]
assert subprocess.run(["git", "-C", "/repo", "status", "--porcelain"], capture_output=True, text=True).stdout.strip() == "", "/repo not clean"
subprocess.check_call(["git", "-C", "/repo", "apply", patch])
try:
    for pid in ids:
        t = time.time()
        p = subprocess.run(["./vcheck", "check", pid, "--tier", "quick"], cwd="/verif", capture_output=True, text=True)
        lines = [l for l in p.stdout.splitlines() if l.startswith(("VIOLATION", "KNOWN-FINDING")) or " OK " in l or " FAILED " in l]
        print("== %s rc=%d (%.0fs)" % (pid, p.returncode, time.time() - t))
        lines = [l for l in lines if not l.startswith("KNOWN-FINDING")] + [l for l in lines if l.startswith("KNOWN-FINDING")]
        for l in lines[:6]:
            print("   " + l[:260])
finally:
    subprocess.check_call(["git", "-C", "/repo", "checkout", "--", "."])
    subprocess.run(["git", "-C", "/repo", "clean", "-fdq", "src", "js"], check=False)
