#!/bin/bash
# Run every claimed check (quick tier by default) on /repo's current tree and summarise.
cd /verif
TIER=${1:-quick}
for p in $(python3 -c "import json; print(' '.join(c['property_id'] for c in json.load(open('MANIFEST.json'))['checks']))"); do
  s=$(date +%s)
  out=$(./vcheck check $p --tier $TIER 2>&1)
  rc=$?
  echo "$p rc=$rc $(( $(date +%s) - s ))s $(echo "$out" | grep -cE '^VIOLATION') violation(s) $(echo "$out" | grep -cE '^KNOWN-FINDING') known"
  echo "$out" | grep -E '^VIOLATION' | head -3
done
