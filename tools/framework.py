#!/usr/bin/env python3
"""Per-property check framework: shared preparation (translator, builds, proof obligations),
case generation, correspondence, decision, evidence and replay files."""
import collections, hashlib, json, os, random, re, subprocess, sys, time

sys.path.insert(0, os.path.dirname(os.path.abspath(__file__)))
sys.path.insert(0, os.path.join(os.path.dirname(os.path.dirname(os.path.abspath(__file__))), "gen"))
import vlib
import jsgen

ROOT = vlib.ROOT
AXIOM_ALLOWLIST = set()   # no axiom is expected under any property theorem

FORBIDDEN = re.compile(r"\b(Admitted|admit|Axiom|Axioms|Parameter|Parameters|Conjecture|Conjectures|Admit Obligations)\b|Unset Guard Checking|Unset Positivity Checking|Unset Universe Checking|bypass_check|type-in-type|impredicative-set")


class Prepared:
    def __init__(self):
        self.translator_errors = []
        self.harness_error = None
        self.coq_ok = False
        self.coq_output = ""
        self.driver_error = None
        self.forbidden = []


def strip_comments(text):
    out, depth, i = [], 0, 0
    while i < len(text):
        if text.startswith("(*", i):
            depth += 1
            i += 2
        elif text.startswith("*)", i) and depth > 0:
            depth -= 1
            i += 2
        else:
            if depth == 0:
                out.append(text[i])
            i += 1
    return "".join(out)


def scan_forbidden():
    bad = []
    for f in vlib.coq_files():
        p = os.path.join(vlib.COQ, f)
        t = strip_comments(open(p).read())
        # string literals may legitimately contain such words
        t = re.sub(r'"(?:[^"]|"")*"', '""', t)
        for m in FORBIDDEN.finditer(t):
            if f == "Extract.v":
                continue
            bad.append("%s: %s" % (f, m.group(0)))
    proj = open(os.path.join(vlib.COQ, "_CoqProject")).read()
    if "type-in-type" in proj or "impredicative-set" in proj:
        bad.append("_CoqProject: forbidden flag")
    return bad


def prepare(need_harness=True):
    """Rebuild everything from /repo's current working tree. Never raises: failures are recorded
    and turned into broken obligations by the checks."""
    P = Prepared()
    P.translator_errors = vlib.run_translator()
    if need_harness:
        try:
            vlib.build_harness()
        except vlib.BuildError as e:
            P.harness_error = "%s: %s" % (e.stage, e.output[-3000:])
    ok, out = vlib.build_coq(targets=["-k"])
    P.coq_ok, P.coq_output = ok, out
    P.forbidden = scan_forbidden()
    try:
        if os.path.exists(os.path.join(vlib.OCAML, "model.ml")):
            vlib.build_driver()
        else:
            P.driver_error = "extraction did not produce model.ml"
    except vlib.BuildError as e:
        P.driver_error = "%s: %s" % (e.stage, e.output[-3000:])
    return P


# which properties depend on the constants the translator reads from a file (Generated.v): a failed extraction is a broken
# obligation of those properties only
_TRANSFORM = {"C01", "C02", "C03", "C04", "C05", "C06", "C07", "C08", "C12", "C15"}
TRANSLATOR_SCOPE = {
    "main.js": {"C11", "C12", "C16"},
    "js/source-map/index.js": {"C11"},
    "src/visitor/literal_visitor.rs": {"C14"},
    "src/telemetry.rs": {"C05", "C12", "C15"},
    "src/lib_wasm.rs": {"C05"},
    "src/util.rs": {"C05", "C13"},
    "src/rewriter.rs": {"C05", "C08", "C09", "C10", "C12", "C16"},
    "src/visitor/visitor_util.rs": _TRANSFORM | {"C06", "C09"},
    "src/visitor/operation_transform_visitor.rs": _TRANSFORM,
    "src/visitor/csi_methods.rs": _TRANSFORM,
    "src/transform/function_prototype_transform.rs": _TRANSFORM,
    "src/visitor/block_transform_visitor.rs": _TRANSFORM,
}


def translator_error_concerns(err, pid):
    m = re.search(r"\[([^\]]+)\] cannot extract", err)
    if not m or m.group(1) not in TRANSLATOR_SCOPE:
        return True
    return pid in TRANSLATOR_SCOPE[m.group(1)] or pid == "C13"   # C13 also owns the inventory of partial operations


def proof_obligations(pid):
    """Compile Properties/<pid>.v on its own, capturing what Print Assumptions reports.
    Returns dict(obligations, discharged, theorems, problems, checker_cmd)."""
    src = os.path.join(vlib.COQ, "Properties", pid + ".v")
    res = {"obligations": 0, "discharged": 0, "theorems": [], "problems": [],
           "checker_cmd": "cd coq && make (full .vo build) && coqc -Q . IastRw Properties/%s.v  # Print Assumptions under every theorem" % pid}
    if not os.path.exists(src):
        res["problems"].append("missing " + src)
        return res
    text = strip_comments(open(src).read())
    names = re.findall(r"Print Assumptions\s+([\w']+)\s*\.", text)
    res["obligations"] = len(names)
    res["theorems"] = names
    vo = os.path.join(vlib.COQ, "Properties", pid + ".vo")
    if not os.path.exists(vo) or os.path.getmtime(vo) < os.path.getmtime(src):
        res["problems"].append("Properties/%s.vo was not (re)built: a proof obligation of %s or of a file it depends on does not check" % (pid, pid))
        return res
    outdir = os.path.join(vlib.CACHE, "pa")
    os.makedirs(outdir, exist_ok=True)
    with vlib.Lock("coq"):
        rc, out = vlib.sh(["timeout", "600", "coqc", "-q", "-Q", ".", "IastRw", "-o", os.path.join(outdir, pid + ".vo"),
                           os.path.join("Properties", pid + ".v")], cwd=vlib.COQ, check=False, timeout=700)
    if rc != 0:
        res["problems"].append("coqc Properties/%s.v failed: %s" % (pid, out[-1500:]))
        return res
    # split the output at each report
    blocks = re.split(r"(?=Closed under the global context|Axioms:)", out)
    reports = [b for b in blocks if b.startswith("Closed under the global context") or b.startswith("Axioms:")]
    if len(reports) != len(names):
        res["problems"].append("expected %d Print Assumptions reports, saw %d" % (len(names), len(reports)))
    for name, rep in zip(names, reports):
        if rep.startswith("Closed under the global context"):
            res["discharged"] += 1
        else:
            axs = re.findall(r"^\s*([\w\.']+)\s*:", rep, re.M)
            extra = [a for a in axs if a not in AXIOM_ALLOWLIST]
            if extra:
                res["problems"].append("theorem %s depends on axioms not in the allowlist: %s" % (name, ", ".join(extra)))
            else:
                res["discharged"] += 1
    return res


# ------------------------------------------------------------------------------------------
class Outcome:
    """Accumulates what a check found."""

    def __init__(self, pid, tier, seed):
        self.pid, self.tier, self.seed = pid, tier, seed
        self.violations = []        # (what, replay_obj)  -- failing input found
        self.broken = []            # (what, replay_obj)  -- obligation / correspondence broken, no failing input
        self.known = []             # strings
        self.coverage = collections.OrderedDict()
        self.samples = []
        self.assumptions = []
        self.evaluations = 0
        self.nontrivial = set()
        self.t0 = time.time()
        self.notes = []

    def violation(self, what, replay):
        self.violations.append((what, replay))

    def break_(self, what, replay):
        self.broken.append((what, replay))

    def finish(self, proof, level="proof", rule="", trusted_base=None):
        ev = {
            "property_id": self.pid, "tier": self.tier, "seed": self.seed, "level": level,
            "wall_s": round(time.time() - self.t0, 2),
            "violations": len(self.violations) + len(self.broken),
            "assumptions": self.assumptions,
            "coverage": dict(self.coverage),
        }
        cov = ev["coverage"]
        cov["obligations"] = proof["obligations"]
        cov["discharged"] = proof["discharged"]
        cov["checker_cmd"] = proof["checker_cmd"]
        cov["theorems"] = proof["theorems"]
        cov["trusted_base"] = trusted_base or TRUSTED_BASE
        cov["evaluations"] = self.evaluations
        cov["distinct_nontrivial"] = len(self.nontrivial)
        cov["rule"] = rule
        cov["samples"] = self.samples[:6]
        cov["known_findings_reported"] = self.known
        if self.notes:
            cov["notes"] = self.notes
        vlib.write_evidence(self.pid, ev)
        for k in self.known:
            print("KNOWN-FINDING: property=%s %s" % (self.pid, k))
        rc = 0
        seen = set()
        for what, replay in self.violations[:5]:
            p = vlib.write_replay(self.pid, dict(replay, what=what, property=self.pid))
            if p in seen:
                continue
            seen.add(p)
            print("VIOLATION property=%s replay=%s" % (self.pid, p))
            rc = 1
        if not self.violations:
            for what, replay in self.broken[:3]:
                p = vlib.write_replay(self.pid, dict(replay, what=what, property=self.pid, failing_input=None))
                print("VIOLATION property=%s replay=%s no-failing-input-found" % (self.pid, p))
                rc = 1
        return rc


TRUSTED_BASE = [
    "Coq 8.16.1 kernel (coqc; vm_compute used for witnesses; no native_compute)",
    "no axioms: Print Assumptions under every property theorem must report 'Closed under the global context'",
    "hand-written Coq model of the repository's logic (coq/Model.v etc.), tied to /repo by the correspondence check (extracted model vs native harness on the same inputs) and by gen/extract_constants.py (regenerated coq/Generated.v)",
    "extraction: ExtrOcamlBasic + ExtrOcamlString only; OCaml 4.13.1; ocaml/{util,validate,driver}.ml (S-expression reader, glue)",
    "native harness (harness/src/main.rs): generic serde->S-expression dump of swc's AST, cfg-guarded hooks in /repo (src/verif_hooks.rs, src/rewriter/verif.rs, src/lib_wasm/verif.rs)",
    "third-party code is not modelled: swc parser/printer, sourcemap crate, base64, serde, V8",
]


# ------------------------------------------------------------------------------------------
# case generation helpers
# ------------------------------------------------------------------------------------------
def config_variants(rng):
    """A configuration drawn from a pool: subsets/renamings of methods, operators on/off, options."""
    pool = [dict(m) for m in vlib.DEFAULT_METHODS]
    r = rng.random()
    if r < 0.55:
        methods = pool
    else:
        methods = [m for m in pool if rng.random() < 0.7]
        for m in methods:
            if rng.random() < 0.2:
                m["dst"] = rng.choice(["renamed", "hookA", "plusOperator", "x1", "$hook", "_h", "$", "h$1", "__proto_h"])
            if rng.random() < 0.1 and not m.get("operator"):
                m["allowedWithoutCallee"] = True
        rng.shuffle(methods)
    cfg = {"csiMethods": methods, "localVarPrefix": rng.choice(["test", "t", "abcdef"])}
    v = rng.choice(["DEBUG", "DEBUG", "INFORMATION", "OFF", "MANDATORY", "debug", "nonsense", None])
    if v is not None:
        cfg["telemetryVerbosity"] = v
    for k in ("literals", "chainSourceMap", "comments"):
        if rng.random() < 0.3:
            cfg[k] = rng.random() < 0.5
    return cfg


def generated_cases(seed, n, tag, cfg_fn=None, opts=None, **genkw):
    cases = []
    for i in range(n):
        rng = random.Random("%s/%s/%d" % (seed, tag, i))
        cfg = cfg_fn(rng) if cfg_fn else vlib.default_config()
        code = jsgen.program("%s/%s" % (seed, tag), i, **genkw)
        cases.append({"id": "%s-%d" % (tag, i), "config": cfg,
                      "calls": [{"code": code, "file": rng.choice(["dir/test.js", "test.js", "/abs/path/file.js"])}],
                      "opts": dict(opts or {})})
    return cases


def snippet_cases(cfg=None, opts=None):
    return [{"id": "snip-%d" % i, "config": cfg or vlib.default_config(),
             "calls": [{"code": s, "file": "test.js"}], "opts": dict(opts or {})}
            for i, s in enumerate(vlib.repo_test_snippets())]


def regress_cases(pid=None, opts=None):
    d = os.path.join(ROOT, "corpus", "regress")
    out = []
    if os.path.isdir(d):
        for f in sorted(os.listdir(d)):
            if f.endswith(".json"):
                c = json.load(open(os.path.join(d, f)))
                c.setdefault("opts", {}).update(opts or {})
                c["id"] = "regress-" + f[:-5]
                out.append(c)
    return out


def load_known():
    p = os.path.join(ROOT, "known_findings.json")
    if os.path.exists(p):
        return json.load(open(p))
    return []


def shrink_program(code, still_fails, budget=60):
    """Greedy line/statement-level delta debugging on the program text."""
    best = code
    parts = re.split(r"(?<=[;}])\s+", best)
    n = 2
    tries = 0
    while len(parts) >= 2 and tries < budget:
        chunk = max(1, len(parts) // n)
        reduced = False
        for i in range(0, len(parts), chunk):
            cand = parts[:i] + parts[i + chunk:]
            if not cand:
                continue
            tries += 1
            text = " ".join(cand)
            try:
                if still_fails(text):
                    parts, best, reduced = cand, text, True
                    n = max(n - 1, 2)
                    break
            except Exception:
                pass
            if tries >= budget:
                break
        if not reduced:
            if chunk == 1:
                break
            n = min(n * 2, len(parts))
    return best


def reserved_header_cases(opts=None):
    """A user identifier with the reserved prefix bound OUTSIDE the block that needs temporaries: every kind of binding position
    in a function / arrow / method / catch header or at top level (deterministic; prefix "t")."""
    import vlib
    headers = ["function f(%s) { OP }", "function f({ %s }) { OP }", "function f({ %s = 1 }) { OP }", "function f({ k: %s }) { OP }", "function f({ k: { %s } }) { OP }",
               "function f([ %s ]) { OP }", "function f([, [ %s ]]) { OP }", "function f(...%s) { OP }", "function f({ ...%s }) { OP }", "function f(p = %s) { OP }",
               "const f = (%s) => { OP };", "const f = ({ %s }) => { OP };", "const f = ({ %s = 1 }) => { OP };", "const f = async ([, %s]) => { OP };", "const f = %s => { OP };",
               "try { q(); } catch (%s) { OP }", "try { q(); } catch ({ %s }) { OP }", "try { q(); } catch ([ %s ]) { OP }",
               "class K { m(%s) { OP } }", "class K { m({ %s }) { OP } }", "class K { set v({ %s }) { OP } }", "class K { constructor({ %s }) { OP } }", "class K { static m({ %s = 2 }) { OP } }",
               "const o2 = { m({ %s }) { OP }, set w([ %s ]) { OP } };",
               "for (const { %s } of arr) { OP }", "for (let [ %s ] = arr; ; ) { OP break; }", "for (const %s in o) { OP }",
               "var { %s } = o; function f() { OP }", "let [ %s ] = arr; function f() { OP }", "import { x as %s } from 'm'; function f() { OP }", "import %s from 'm'; function f() { OP }",
               "function %s() { OP }", "class %s { m() { OP } }", "const f = function %s() { OP };", "export function g({ %s }) { OP }"]
    ops = ["y = a + q();", "y = q() + q(a);", "y = `${a}${q()}`;", "y = a.concat(q());", "w += q();"]
    out = []
    k = 0
    for hi, h in enumerate(headers):
        for ni in (0, 1):
            name = "__datadog_t_%d" % ni
            code = h.replace("%s", name).replace("OP", ops[(hi + ni) % len(ops)])
            k += 1
            out.append({"id": "rsvhdr-%d-%d" % (hi, ni), "config": vlib.default_config(localVarPrefix="t"), "calls": [{"code": code, "file": "hdr.js"}], "opts": dict(opts or {})})
    return out
