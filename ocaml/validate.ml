(* Glue that runs the extracted specification-side functions (defined and reasoned about in Coq)
   on the trees of the implementation: input tree, output tree, re-parsed content. *)
open Model
open Util

let trunc (s : string) : string = if String.length s > 700 then String.sub s 0 700 ^ "..." else s

let strs (l : char list list) : jv = JL (List.map (fun s -> JS (implode s)) l)

let on (parts : string list) (name : string) (f : unit -> (string * jv) list) : (string * jv) list =
  if List.mem name parts then f () else []

let run (_prefix : string) (cfg : config) (parts : string list) (_src : string)
    (ast_in : node option) (ast_out : node option) (ast_reparsed : node option)
  : (string * jv) list =
  let hooks =
    on parts "hooks" (fun () ->
      let one name = function
        | None -> []
        | Some t ->
            [ (name ^ "_hook_count", JI (int_of_nat (hook_count t)));
              (name ^ "_hook_names", strs (hook_names t));
              (name ^ "_hook_tags", strs (hook_tags (var_prefix cfg) t));
              (name ^ "_hook_sites",
               JL (List.map (fun (nm, (lo, hi)) -> JL [ JS (implode nm); JI (int_of_n lo); JI (int_of_n hi) ])
                     (hook_sites t))) ] in
      one "in" ast_in @ one "out" ast_out @ one "reparsed" ast_reparsed
      @ [ ("prologue_hook_count",
           JI (List.fold_left (fun a s -> a + int_of_nat (hook_count s)) 0 cfg.c_prefix_stmts)) ]) in
  let classes =
    on parts "classes" (fun () ->
      match ast_in with Some t -> [ ("classes", strs (known_classes (List.map (fun m -> m.m_src) (List.filter (fun m -> not m.m_operator) cfg.c_methods)) t)) ] | None -> []) in
  let modified_of (ast_in : node option) (ast_out : node option) : bool =
    (* the file is modified iff the prologue/hooks are there; the caller passes it explicitly *)
    List.mem "modified" parts in
  let directives =
    on parts "directives" (fun () ->
      match ast_in, ast_out with
      | Some i, Some o ->
          let ndir t = List.length (directives_of (program_body t))
                       + List.fold_left (fun a (_, st) -> a + List.length (directives_of st)) 0 (blocks_of t) in
          [ ("directives_ok",
             JB (directives_ok (var_prefix cfg) cfg.c_prefix_stmts (modified_of ast_in ast_out) i o));
            ("in_directives", JI (ndir i)); ("out_directives", JI (ndir o)) ]
      | _, _ -> []) in
  let erase_part =
    on parts "erase" (fun () ->
      match ast_in, ast_out with
      | Some i, Some o ->
          let vp = var_prefix cfg in
          let plus = plus_enabled cfg in
          let m = modified_of ast_in ast_out in
          let ok = erase_ok vp cfg.c_prefix_stmts plus m i o in
          let dups = ("dup_effects", JL (List.map (fun (lo, hi) -> JL [ JI (int_of_n lo); JI (int_of_n hi) ]) (dup_effects vp i o))) in
          if ok then [ ("erase_ok", JB true); dups ]
          else begin
            let a = strip_parens (lower plus (erase vp cfg.c_prefix_stmts m o)) and b = strip_parens (lower plus i) in
            let path = match first_diff_nospan a b with Some p -> List.map int_of_nat p | None -> [] in
            let rec at n p = match p, n with
              | [], _ -> n
              | i :: p', Node (_, cs) -> (try at (List.nth cs i) p' with _ -> n) in
            let parent = match List.rev path with _ :: r -> List.rev r | [] -> [] in
            [ ("erase_ok", JB false); dups;
              ("erase_diff_path", JL (List.map (fun i -> JI i) path));
              ("erase_diff_erased", JS (trunc (sexp_string (at a parent))));
              ("erase_diff_input", JS (trunc (sexp_string (at b parent)))) ]
          end
      | _, _ -> []) in
  let sites_part =
    on parts "sites" (fun () ->
      match ast_in, ast_out with
      | Some i, Some o ->
          let sc = { sc_plus = plus_enabled cfg; sc_tpl = tpl_enabled cfg;
                     sc_methods = List.map (fun m -> m.m_src) (List.filter (fun m -> not m.m_operator) cfg.c_methods);
                     sc_lit_callers = (if cfg.c_lit_callers = [] then [] else documented_lit_callers) } in
          let req = required_sites sc i in
          let miss = missing_sites sc i o in
          let js (s : site) = JO [ ("lo", JI (int_of_n (fst s.s_key))); ("hi", JI (int_of_n (snd s.s_key)));
                                   ("what", JS (implode s.s_what)); ("class", JS (implode s.s_class)) ] in
          [ ("required_sites", JI (List.length req));
            ("required_sample", JL (List.map js (List.filteri (fun k _ -> k < 4) req)));
            ("missing_sites", JL (List.map js miss)) ]
      | _, _ -> []) in
  let hygiene_part =
    on parts "hygiene" (fun () ->
      let one name = function
        | None -> []
        | Some t ->
            [ (name ^ "_hygiene",
               JL (List.map (fun (k, n) -> JL [ JS (implode k); JS (implode n) ])
                     (hygiene_issues (var_prefix cfg) t))) ] in
      one "out" ast_out @ one "reparsed" ast_reparsed) in
  let shapes_part =
    on parts "shapes" (fun () ->
      let one name = function
        | None -> []
        | Some t -> [ (name ^ "_shapes", strs (shape_issues (var_prefix cfg) t)) ] in
      one "out" ast_out) in
  let roundtrip_part =
    on parts "roundtrip" (fun () ->
      match ast_out, ast_reparsed with
      | Some o, Some r ->
          if roundtrip_ok o r then [ ("roundtrip_ok", JB true) ]
          else begin
            let a = norm_print o and b = norm_print r in
            let path = match first_diff_nospan a b with Some p -> List.map int_of_nat p | None -> [] in
            let rec at n p = match p, n with
              | [], _ -> n
              | i :: p', Node (_, cs) -> (try at (List.nth cs i) p' with _ -> n) in
            let parent = match List.rev path with _ :: r -> List.rev r | [] -> [] in
            [ ("roundtrip_ok", JB false);
              ("roundtrip_diff_out", JS (trunc (sexp_string (at a parent))));
              ("roundtrip_diff_reparsed", JS (trunc (sexp_string (at b parent)))) ]
          end
      | _, _ -> []) in
  let literals_part =
    on parts "literals" (fun () ->
      let one name = function
        | None -> []
        | Some t ->
            (match collect true t with
             | Some es ->
                 [ (name ^ "_literals",
                    JL (List.map (fun e -> JL [ JS (implode e.le_value); JI (int_of_n (fst e.le_span)); JI (int_of_n (snd e.le_span));
                                                (match e.le_ident with Some i -> JS (implode i) | None -> JL []) ]) es)) ]
             | None -> []) in
      one "in" ast_in @ one "out" ast_out) in
  let order_part =
    on parts "order" (fun () ->
      match ast_out with
      | Some t -> [ ("out_order", strs (order_issues (var_prefix cfg) t)) ]
      | None -> []) in
  let wf_part =
    on parts "wf" (fun () ->
      let ns name = function Some t -> [ (name ^ "_ns", JI (int_of_nat (ns_count t))) ] | None -> [] in
      (match ast_in with
       | Some t -> [ ("in_wf", JB (wf_all t)); ("in_optchain", JB (has_optchain t)) ]
       | None -> [])
      @ ns "in" ast_in @ ns "out" ast_out
      @ [ ("prologue_ns", JI (List.fold_left (fun a s -> a + int_of_nat (ns_count s)) 0 cfg.c_prefix_stmts)) ]
      (* the measure of C05_rewrite_only_configured_names: members on the namespace whose name is not configured *)
      @ (match ast_out with Some t -> [ ("out_badnames", JI (int_of_nat (badname (configured cfg) t)));
                                        ("out_ns_members", JI (List.length (ns_members t))) ] | None -> [])
      @ (match ast_in with Some t -> [ ("in_ns_members", JI (List.length (ns_members t))) ] | None -> [])
      @ [ ("prologue_badnames", JI (int_of_nat (badname_list (configured cfg) cfg.c_prefix_stmts))) ]) in
  let tie_part =
    on parts "semtie" (fun () ->
      match ast_in, ast_out with
      | Some i, Some o ->
          let r = match sem_tie (var_prefix cfg) (plus_name cfg)
                          (fun m -> match csi_get cfg m with Some _ -> true | None -> false)
                          (fun m -> allows_literal_callers cfg m)
                          (fun m -> match csi_get cfg m with Some x -> x.m_awc | None -> false) (plus_enabled cfg) i o with
            | TieNotCore -> "not-core" | TieNoOutput -> "no-output" | TieAgree -> "agree" | TieDiffer -> "differ" in
          [ ("semtie", JS r) ]
      | _, _ -> []) in
  hooks @ wf_part @ tie_part @ classes @ directives @ erase_part @ sites_part @ hygiene_part @ shapes_part @ roundtrip_part @ literals_part @ order_part
