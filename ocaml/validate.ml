(* Glue that runs the extracted specification-side functions (defined and reasoned about in Coq)
   on the trees of the implementation: input tree, output tree, re-parsed content. *)
open Model
open Util

let strs (l : char list list) : jv = JL (List.map (fun s -> JS (implode s)) l)

let on (parts : string list) (name : string) (f : unit -> (string * jv) list) : (string * jv) list =
  if List.mem name parts then f () else []

let run (_prefix : string) (cfg : config) (parts : string list) (_src : string)
    (ast_in : node option) (ast_out : node option) (ast_reparsed : node option)
  : (string * jv) list =
  let hooks =
    on parts "hooks" (fun () ->
      let one name = function
        | None -> []
        | Some t ->
            [ (name ^ "_hook_count", JI (int_of_nat (hook_count t)));
              (name ^ "_hook_names", strs (hook_names t));
              (name ^ "_hook_tags", strs (hook_tags (var_prefix cfg) t));
              (name ^ "_hook_sites",
               JL (List.map (fun (nm, (lo, hi)) -> JL [ JS (implode nm); JI (int_of_n lo); JI (int_of_n hi) ])
                     (hook_sites t))) ] in
      one "in" ast_in @ one "out" ast_out @ one "reparsed" ast_reparsed
      @ [ ("prologue_hook_count",
           JI (List.fold_left (fun a s -> a + int_of_nat (hook_count s)) 0 cfg.c_prefix_stmts)) ]) in
  let classes =
    on parts "classes" (fun () ->
      match ast_in with Some t -> [ ("classes", strs (known_classes t)) ] | None -> []) in
  hooks @ classes
