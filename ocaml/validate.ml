(* Glue that runs the extracted validators (proved in Coq) on implementation output. *)
open Model
open Util

let run (_prefix : string) (_cfg : config) (_parts : string list) (_src : string)
    (_ast_in : node option) (_ast_out : node option) (_ast_reparsed : node option)
  : (string * jv) list = []
