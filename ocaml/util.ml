(* Utilities shared by the driver: conversions, S-expressions, JSON.
   (split from driver.ml)
   Driver for the extracted model (hand-written, trusted): reads a line protocol, runs the
   extracted Coq functions, prints one JSON object per RUN.

   Protocol (one command per line, fields separated by a single TAB, strings \xHH-escaped like
   the S-expression strings):
     BEGIN <id>
     PREFIX <str>            local_var_prefix
     METHOD <src> <dst> <0|1 operator> <0|1 allowedWithoutCallee>
     LITCALLER <str>
     VERB <OFF|MANDATORY|INFORMATION|DEBUG>
     FLAGS <literals 0|1> <chain 0|1> <comments 0|1>
     PRESTMTS <sexp (L ...)>
     FILE <str>
     SRC <str>               source text (for line/column computations)
     IN <sexp>               tree before the transformation
     OUT <sexp>              tree the implementation produced (optional)
     REPARSED <sexp>         tree parsed from the implementation's content (optional)
     RUN <what>              what = model | validate | ...  (comma separated)
     END
*)
open Model

let explode (s : string) : char list = List.init (String.length s) (String.get s)
let implode (l : char list) : string =
  let b = Buffer.create 16 in List.iter (Buffer.add_char b) l; Buffer.contents b

let rec pos_of_int (i : int) : positive =
  if i = 1 then XH else if i land 1 = 1 then XI (pos_of_int (i lsr 1)) else XO (pos_of_int (i lsr 1))
let n_of_int (i : int) : n = if i <= 0 then N0 else Npos (pos_of_int i)
let rec int_of_pos = function XH -> 1 | XO p -> 2 * int_of_pos p | XI p -> 2 * int_of_pos p + 1
let int_of_n = function N0 -> 0 | Npos p -> int_of_pos p
let rec int_of_nat = function O -> 0 | S n -> 1 + int_of_nat n

(* ---- escaped strings ---- *)
let unescape (s : string) : string =
  let b = Buffer.create (String.length s) in
  let n = String.length s in
  let i = ref 0 in
  while !i < n do
    if s.[!i] = '\\' && !i + 3 < n && s.[!i + 1] = 'x' then begin
      Buffer.add_char b (Char.chr (int_of_string ("0x" ^ String.sub s (!i + 2) 2)));
      i := !i + 4
    end else begin Buffer.add_char b s.[!i]; incr i end
  done;
  Buffer.contents b

let escape_into (b : Buffer.t) (s : string) : unit =
  String.iter (fun ch ->
    let c = Char.code ch in
    if c >= 0x20 && c < 0x7f && ch <> '"' && ch <> '\\' then Buffer.add_char b ch
    else Buffer.add_string b (Printf.sprintf "\\x%02x" c)) s

(* ---- S-expression reader ---- *)
exception Parse_error of string

let parse_sexp (s : string) : node =
  let n = String.length s in
  let pos = ref 0 in
  let skip () = while !pos < n && s.[!pos] = ' ' do incr pos done in
  let token () =
    let st = !pos in
    while !pos < n && s.[!pos] <> ' ' && s.[!pos] <> ')' && s.[!pos] <> '(' do incr pos done;
    String.sub s st (!pos - st) in
  let rec node () : node =
    skip ();
    if !pos >= n then raise (Parse_error "eof");
    match s.[!pos] with
    | 'N' -> incr pos; Node (Nul, [])
    | 'T' -> incr pos; Node (Bln true, [])
    | 'F' -> incr pos; Node (Bln false, [])
    | '#' -> incr pos; let t = token () in Node (Num (explode t), [])
    | '"' ->
        incr pos;
        let st = !pos in
        while !pos < n && s.[!pos] <> '"' do incr pos done;
        let raw = String.sub s st (!pos - st) in
        incr pos;
        Node (Str (explode (unescape raw)), [])
    | '(' ->
        incr pos;
        let hd = token () in
        let tg =
          match hd with
          | "K" ->
              skip (); let k = token () in
              skip (); let lo = token () in
              skip (); let hi = token () in
              K (kind_of_string (explode k), n_of_int (int_of_string lo), n_of_int (int_of_string hi))
          | "O" -> Obj
          | "L" -> Lst
          | _ -> raise (Parse_error ("bad head " ^ hd)) in
        let cs = ref [] in
        skip ();
        while !pos < n && s.[!pos] <> ')' do
          cs := node () :: !cs;
          skip ()
        done;
        incr pos;
        Node (tg, List.rev !cs)
    | c -> raise (Parse_error (Printf.sprintf "unexpected %c at %d" c !pos)) in
  node ()

let rec print_sexp (b : Buffer.t) (nd : node) : unit =
  match nd with
  | Node (Nul, _) -> Buffer.add_char b 'N'
  | Node (Bln true, _) -> Buffer.add_char b 'T'
  | Node (Bln false, _) -> Buffer.add_char b 'F'
  | Node (Num t, _) -> Buffer.add_char b '#'; Buffer.add_string b (implode t)
  | Node (Str t, _) -> Buffer.add_char b '"'; escape_into b (implode t); Buffer.add_char b '"'
  | Node (tg, cs) ->
      (match tg with
       | K (k, lo, hi) ->
           Buffer.add_string b
             (Printf.sprintf "(K %s %d %d" (implode (string_of_kind k)) (int_of_n lo) (int_of_n hi))
       | Obj -> Buffer.add_string b "(O"
       | Lst -> Buffer.add_string b "(L"
       | _ -> ());
      List.iter (fun c -> Buffer.add_char b ' '; print_sexp b c) cs;
      Buffer.add_char b ')'

let sexp_string (nd : node) : string =
  let b = Buffer.create 256 in print_sexp b nd; Buffer.contents b

(* first difference between two trees: path of child indices *)
let rec first_diff (a : node) (b : node) (path : int list) : (int list * node * node) option =
  match a, b with
  | Node (ta, ca), Node (tb, cb) ->
      if ta <> tb || List.length ca <> List.length cb then Some (List.rev path, a, b)
      else
        let rec go i xs ys =
          match xs, ys with
          | x :: xs', y :: ys' ->
              (match first_diff x y (i :: path) with Some d -> Some d | None -> go (i + 1) xs' ys')
          | _, _ -> None in
        go 0 ca cb

(* ---- JSON output ---- *)
let json_string (b : Buffer.t) (s : string) : unit =
  Buffer.add_char b '"';
  String.iter (fun ch ->
    let c = Char.code ch in
    if ch = '"' then Buffer.add_string b "\\\""
    else if ch = '\\' then Buffer.add_string b "\\\\"
    else if c < 0x20 || c >= 0x7f then Buffer.add_string b (Printf.sprintf "\\u%04x" c)
    else Buffer.add_char b ch) s;
  Buffer.add_char b '"'

type jv = JS of string | JI of int | JB of bool | JL of jv list | JO of (string * jv) list | JNull

let rec json (b : Buffer.t) (v : jv) : unit =
  match v with
  | JS s -> json_string b s
  | JI i -> Buffer.add_string b (string_of_int i)
  | JB x -> Buffer.add_string b (if x then "true" else "false")
  | JNull -> Buffer.add_string b "null"
  | JL l ->
      Buffer.add_char b '[';
      List.iteri (fun i x -> if i > 0 then Buffer.add_char b ','; json b x) l;
      Buffer.add_char b ']'
  | JO l ->
      Buffer.add_char b '{';
      List.iteri (fun i (k, x) ->
        if i > 0 then Buffer.add_char b ',';
        json_string b k; Buffer.add_char b ':'; json b x) l;
      Buffer.add_char b '}'

