#!/bin/sh
# Build the OCaml driver around the extracted model (model.ml/model.mli are produced by coq/Extract.v).
set -e
cd "$(dirname "$0")"
ocamlfind ocamlopt -O2 -w -a -package str -linkpkg model.mli model.ml util.ml validate.ml driver.ml -o driver 2>&1 || \
ocamlfind ocamlopt -w -a -package str -linkpkg model.mli model.ml util.ml validate.ml driver.ml -o driver
