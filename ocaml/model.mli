
val negb : bool -> bool

type nat =
| O
| S of nat

type ('a, 'b) sum =
| Inl of 'a
| Inr of 'b

val fst : ('a1 * 'a2) -> 'a1

val snd : ('a1 * 'a2) -> 'a2

val length : 'a1 list -> nat

val app : 'a1 list -> 'a1 list -> 'a1 list

type comparison =
| Eq
| Lt
| Gt

val compOpp : comparison -> comparison

type uint =
| Nil
| D0 of uint
| D1 of uint
| D2 of uint
| D3 of uint
| D4 of uint
| D5 of uint
| D6 of uint
| D7 of uint
| D8 of uint
| D9 of uint

val revapp : uint -> uint -> uint

val rev : uint -> uint

module Little :
 sig
  val double : uint -> uint

  val succ_double : uint -> uint
 end

val add : nat -> nat -> nat

val mul : nat -> nat -> nat

val sub : nat -> nat -> nat

val eqb : nat -> nat -> bool

val leb : nat -> nat -> bool

val ltb : nat -> nat -> bool

val max : nat -> nat -> nat

val bool_dec : bool -> bool -> bool

val eqb0 : bool -> bool -> bool

type positive =
| XI of positive
| XO of positive
| XH

type n =
| N0
| Npos of positive

type z =
| Z0
| Zpos of positive
| Zneg of positive

module Nat :
 sig
  val sub : nat -> nat -> nat

  val eqb : nat -> nat -> bool

  val leb : nat -> nat -> bool

  val divmod : nat -> nat -> nat -> nat -> nat * nat

  val modulo : nat -> nat -> nat

  val div2 : nat -> nat
 end

module Pos :
 sig
  type mask =
  | IsNul
  | IsPos of positive
  | IsNeg
 end

module Coq_Pos :
 sig
  val succ : positive -> positive

  val add : positive -> positive -> positive

  val add_carry : positive -> positive -> positive

  val pred_double : positive -> positive

  type mask = Pos.mask =
  | IsNul
  | IsPos of positive
  | IsNeg

  val succ_double_mask : mask -> mask

  val double_mask : mask -> mask

  val double_pred_mask : positive -> mask

  val sub_mask : positive -> positive -> mask

  val sub_mask_carry : positive -> positive -> mask

  val mul : positive -> positive -> positive

  val size_nat : positive -> nat

  val compare_cont : comparison -> positive -> positive -> comparison

  val compare : positive -> positive -> comparison

  val eqb : positive -> positive -> bool

  val iter_op : ('a1 -> 'a1 -> 'a1) -> positive -> 'a1 -> 'a1

  val to_nat : positive -> nat

  val of_succ_nat : nat -> positive

  val to_little_uint : positive -> uint

  val to_uint : positive -> uint

  val eq_dec : positive -> positive -> bool
 end

module N :
 sig
  val succ_double : n -> n

  val double : n -> n

  val succ : n -> n

  val add : n -> n -> n

  val sub : n -> n -> n

  val mul : n -> n -> n

  val compare : n -> n -> comparison

  val eqb : n -> n -> bool

  val leb : n -> n -> bool

  val ltb : n -> n -> bool

  val div2 : n -> n

  val even : n -> bool

  val odd : n -> bool

  val size_nat : n -> nat

  val pos_div_eucl : positive -> n -> n * n

  val div_eucl : n -> n -> n * n

  val div : n -> n -> n

  val modulo : n -> n -> n

  val to_nat : n -> nat

  val of_nat : nat -> n

  val to_uint : n -> uint

  val eq_dec : n -> n -> bool
 end

val zero : char

val one : char

val shift : bool -> char -> char

val ascii_of_pos : positive -> char

val ascii_of_N : n -> char

val ascii_of_nat : nat -> char

val n_of_digits : bool list -> n

val n_of_ascii : char -> n

val nat_of_ascii : char -> nat

val nth_error : 'a1 list -> nat -> 'a1 option

val rev0 : 'a1 list -> 'a1 list

val map : ('a1 -> 'a2) -> 'a1 list -> 'a2 list

val flat_map : ('a1 -> 'a2 list) -> 'a1 list -> 'a2 list

val fold_right : ('a2 -> 'a1 -> 'a1) -> 'a1 -> 'a2 list -> 'a1

val existsb : ('a1 -> bool) -> 'a1 list -> bool

val forallb : ('a1 -> bool) -> 'a1 list -> bool

val filter : ('a1 -> bool) -> 'a1 list -> 'a1 list

val find : ('a1 -> bool) -> 'a1 list -> 'a1 option

val firstn : nat -> 'a1 list -> 'a1 list

val skipn : nat -> 'a1 list -> 'a1 list

module Z :
 sig
  val double : z -> z

  val succ_double : z -> z

  val pred_double : z -> z

  val pos_sub : positive -> positive -> z

  val add : z -> z -> z

  val opp : z -> z

  val compare : z -> z -> comparison

  val ltb : z -> z -> bool

  val to_N : z -> n

  val of_N : n -> z
 end

val string_dec : char list -> char list -> bool

val eqb1 : char list -> char list -> bool

val append : char list -> char list -> char list

val length0 : char list -> nat

val get : nat -> char list -> char option

val substring : nat -> nat -> char list -> char list

val prefix : char list -> char list -> bool

val string_of_list_ascii : char list -> char list

type kind =
| KScript
| KModule
| KBlock
| KExprStmt
| KIf
| KReturn
| KVarDecl
| KVarDeclarator
| KEmptyStmt
| KBin
| KAssign
| KTpl
| KTplElem
| KTaggedTpl
| KCall
| KNew
| KMember
| KSuperProp
| KOptChain
| KUnary
| KUpdate
| KArrow
| KParen
| KSeq
| KCond
| KArray
| KObject
| KKeyValue
| KIdent
| KIdentName
| KComputed
| KSpreadElement
| KStr
| KNum
| KBoolLit
| KNullLit
| KRegex
| KBigInt
| KJSXText
| KFnDecl
| KFnExpr
| KClassDecl
| KClassExpr
| KParam
| KClassMethod
| KPrivateMethod
| KConstructor
| KClassProp
| KPrivateProp
| KStaticBlock
| KMethodProp
| KGetterProp
| KSetterProp
| KAssignProp
| KArrayPat
| KObjectPat
| KAssignPat
| KRestPat
| KKeyValuePat
| KAssignPatProp
| KThis
| KSuper
| KImport
| KYield
| KAwait
| KMetaProp
| KPrivateName
| KFor
| KForIn
| KForOf
| KWhile
| KDoWhile
| KSwitch
| KSwitchCase
| KTry
| KCatch
| KThrow
| KLabeled
| KBreak
| KContinue
| KWith
| KDebugger
| KImportDecl
| KExportDecl
| KExportDefaultDecl
| KExportDefaultExpr
| KExportNamed
| KExportAll
| KOther of char list

val kind_table : (char list * kind) list

val assoc_kind : char list -> (char list * kind) list -> kind option

val kind_of_string : char list -> kind

val kind_eq_dec : kind -> kind -> bool

val kind_eqb : kind -> kind -> bool

val rassoc_kind : kind -> (char list * kind) list -> char list option

val string_of_kind : kind -> char list

type tag =
| K of kind * n * n
| Obj
| Lst
| Nul
| Str of char list
| Bln of bool
| Num of char list

type node =
| Node of tag * node list

val tag_eq_dec : tag -> tag -> bool

val tag_eqb : tag -> tag -> bool

val node_eqb : node -> node -> bool

val node_size : node -> nat

val node_depth : node -> nat

type sp = n * n

val dUMMY : sp

val mk : kind -> sp -> node list -> node

val nS : char list -> node

val nB : bool -> node

val nNum : char list -> node

val nNul : node

val nL : node list -> node

val nO : node list -> node

val ctxt0 : node

val span_of : node -> sp

val kind_of : node -> kind option

val is_kind : kind -> node -> bool

val is_dummy : sp -> bool

val mk_ident : sp -> char list -> node

val mk_binding_ident : sp -> char list -> node

val mk_ident_name : sp -> char list -> node

val ident_sym : node -> char list option

val ident_name_sym : node -> char list option

val span_obj : sp -> node

val mk_arg : node -> node

val mk_spread_arg : node -> node

val arg_expr : node -> node option

val arg_is_spread : node -> bool

val mk_bin : sp -> char list -> node -> node -> node

val mk_assign : sp -> char list -> node -> node -> node

val mk_member : sp -> node -> node -> node

val mk_call : sp -> node -> node list -> node

val mk_paren : sp -> node -> node

val mk_seq : sp -> node list -> node

val mk_cond : sp -> node -> node -> node -> node

val mk_array : sp -> node list -> node

val mk_null : sp -> node

val mk_return : sp -> node -> node

val mk_block : sp -> node list -> node

val mk_var_declarator : sp -> node -> node

val mk_let : sp -> node list -> node

val is_lit_kind : kind -> bool

val is_lit : node -> bool

val is_ident : node -> bool

val is_leaf_kind : kind -> bool

val leaf : node -> bool

val gen_DATADOG_VAR_PREFIX : char list

val gen_DD_GLOBAL_NAMESPACE : char list

val gen_DD_PLUS_OPERATOR : char list

val gen_DD_TEMPLATE_LITERAL_OPERATOR : char list

val gen_ADD_TAG : char list

val gen_ADD_ASSIGN_TAG : char list

val gen_TPL_TAG : char list

val gen_lit_callers : char list list

val gen_PROTOTYPE : char list

val gen_CALL : char list

val gen_APPLY : char list

val gen_prologue_template : char list

val gen_prologue_entry_format : char list

val gen_prologue_join : char list

val gen_prologue_placeholder : char list

val gen_cancel_format : char list

val gen_cancel_unknown : char list

val gen_cancel_reason : char list

val gen_default_chain : bool

val gen_default_comments : bool

val gen_default_literals : bool

val gen_default_prefix_len : n

val gen_default_operator : bool

val gen_default_awc : bool

val gen_rnd_alphabet : char list

val gen_verbosity_table : (char list * char list) list

val gen_verbosity_fallback : char list

val gen_verbosity_absent : char list

val gen_verbosity_uppercases : bool

type csi_method = { m_src : char list; m_dst : char list; m_operator : 
                    bool; m_awc : bool }

type verbosity =
| VOff
| VMandatory
| VInformation
| VDebug

type config = { c_prefix : char list; c_methods : csi_method list;
                c_lit_callers : char list list; c_verbosity : verbosity;
                c_literals : bool; c_chain : bool; c_comments : bool;
                c_prefix_stmts : node list }

val find_operator : char list -> csi_method list -> csi_method option

val plus_operator : config -> csi_method option

val tpl_operator : config -> csi_method option

val plus_enabled : config -> bool

val tpl_enabled : config -> bool

val plus_name : config -> char list

val tpl_name : config -> char list

val csi_get : config -> char list -> csi_method option

val allows_literal_callers : config -> char list -> bool

val var_prefix : config -> char list

val configured_dsts : config -> char list list

val configured : config -> char list -> bool

type raw_method = { rm_src : char list; rm_dst : char list option;
                    rm_operator : bool option; rm_awc : bool option }

type raw_config = { r_chain : bool option; r_comments : bool option;
                    r_prefix : char list option;
                    r_methods_opt : raw_method list option;
                    r_verbosity : char list option; r_literals : bool option }

val r_methods : raw_config -> raw_method list

val opt_default : 'a1 -> 'a1 option -> 'a1

val method_of_raw : raw_method -> csi_method

val nth_char : char list -> nat -> char

val rnd_chars : (nat -> nat) -> char list -> nat -> nat -> char list

val rnd_string : (nat -> nat) -> nat -> char list

val upper_ascii : char -> char

val upper : char list -> char list

val verbosity_of_name : char list -> verbosity

val assoc_string :
  char list -> (char list * char list) list -> char list option

val parse_verbosity : char list option -> verbosity

val join : char list -> char list list -> char list

val replace_first : char list -> char list -> char list -> char list

val subst1 : char list -> char list -> char list

val prologue_text : csi_method list -> char list

val to_config_with :
  (char list -> node list) -> (nat -> nat) -> raw_config -> config

val to_config : (nat -> nat) -> raw_config -> config

type pos = n * n

val ple : pos -> pos -> bool

val plt : pos -> pos -> bool

type 'a token = pos * 'a

val lookup_from :
  'a1 token option -> 'a1 token list -> pos -> 'a1 token option

val lookup : 'a1 token list -> pos -> 'a1 token option

val find_loop : nat -> 'a1 token list -> nat -> nat -> pos -> nat

val find_entry : 'a1 token list -> pos -> 'a1 token option

val chain : pos token list -> 'a1 token list -> 'a1 token list

val keep_sourced : 'a1 option token list -> 'a1 token list

val chain_opt : pos token list -> 'a1 option token list -> 'a1 token list

val b64_alphabet : char list

val index_of : char -> char list -> n -> n option

val b64_digit : char -> n option

val b64_char : n -> char

val zigzag : z -> n

val unzigzag : n -> z

val digits : nat -> n -> n list

val vlq_digits : z -> n list

val undigits : n list -> (n * n list) option

val vlq_decode_digits : n list -> (z * n list) option

val vlq_encode : z -> char list

val b64_prefix : char list -> n list * char list

val vlq_all : nat -> n list -> z list option

type raw_token = { rt_gl : n; rt_gc : z; rt_src : ((z * z) * z) option;
                   rt_name : z option }

type dstate = { d_line : n; d_col : z; d_src : z; d_sl : z; d_sc : z;
                d_name : z }

val decode_mappings_from : nat -> char list -> dstate -> raw_token list option

val decode_mappings : char list -> raw_token list option

type lit_entry = { le_value : char list; le_span : sp;
                   le_ident : char list option }

val str_value : node -> char list option

val documented_len_ok : n -> bool

val documented_require : char list

val documented_regexp : char list

val entry_of : node -> char list option -> lit_entry list

val first_arg_is_plain_literal : node list -> bool

val callee_named : node -> char list -> bool

val skipped : node -> bool

val binding_name : node -> char list option

val here : node -> lit_entry list

val not_an_expression : tag -> nat -> node -> bool

val walk : node -> lit_entry list

val sp_eqb : sp -> sp -> bool

val same_entry : lit_entry -> lit_entry -> bool

val dedup :
  lit_entry list -> lit_entry list -> lit_entry list -> lit_entry list

val collect : bool -> node -> lit_entry list option

module NilEmpty :
 sig
  val string_of_uint : uint -> char list
 end

type status =
| Modified
| NotModified
| Cancelled

val status_eqb : status -> status -> bool

type tstate = { t_status : status; t_msg : char list option; t_count : 
                n; t_tags : char list list }

val t_init : tstate

val telemetry_inc : verbosity -> char list option -> tstate -> tstate

val update_status :
  verbosity -> status -> char list option -> tstate -> tstate

type pstate = { p_ctr : n; p_idents : char list list; p_dup : bool }

val p_init : pstate

val n_to_string : n -> char list

val temp_name : config -> n -> char list

val register_ident : char list -> pstate -> pstate

val next_ident : pstate -> n * pstate

val reset_counter : pstate -> pstate

val register_variable : config -> node -> pstate -> pstate

type ident_kind =
| IKExpr
| IKSpread

val paren_span : sp -> sp

val assign_right : node -> ident_kind -> node

val expr_or_spread : node -> ident_kind -> node

type acc = { a_assigns : node list; a_args : node list }

val acc0 : acc

val push_assign : node -> acc -> acc

val push_arg : node -> acc -> acc

val get_temporal :
  config -> node -> sp -> ident_kind -> acc -> pstate -> (node
  option * acc) * pstate

val get_ident :
  config -> node -> sp -> ident_kind -> acc -> pstate -> (node
  option * acc) * pstate

type ident_mode =
| Replace
| Keep

val get_ident_mode : node -> ident_mode

val replace_default :
  config -> node -> sp -> ident_kind -> acc -> pstate -> (node * acc) * pstate

val bin_op : node -> char list option

val is_op : (node -> char list option) -> char list -> node -> bool

val replace_expr_noexpand :
  config -> node -> ident_mode -> sp -> ident_kind -> acc -> pstate ->
  (node * acc) * pstate

val replace_arg_noexpand :
  config -> node -> ident_mode -> sp -> acc -> pstate -> (node * acc) * pstate

val replace_elems :
  config -> node list -> ident_mode -> sp -> acc -> pstate -> (node
  list * acc) * pstate

val replace_expr :
  config -> node -> ident_mode -> sp -> ident_kind -> bool -> acc -> pstate
  -> (node * acc) * pstate

val replace_arg :
  config -> node -> ident_mode -> sp -> bool -> acc -> pstate ->
  (node * acc) * pstate

val replace_args :
  config -> node list -> sp -> bool -> acc -> pstate -> (node
  list * acc) * pstate

val dd_callee : char list -> sp -> node

val dd_call : node -> node list -> char list -> sp -> node

val dd_paren : node -> acc -> char list -> sp -> node

val arg_is_nonlit : node -> bool

val binary_transform : config -> node -> pstate -> node option * pstate

val simple_target_to_expr : node -> node

val is_pat_target : node -> bool

val hoist_key : config -> node -> sp -> acc -> pstate -> (node * acc) * pstate

val key_hoisted : node -> bool

val hoist_member :
  config -> node -> sp -> acc -> pstate -> ((node * acc) * pstate) option

val peel_parens : node -> node

val hoist_target :
  config -> node -> sp -> acc -> pstate -> (node * acc) * pstate

val assign_transform : config -> node -> pstate -> node option * pstate

val tpl_replace :
  config -> node list -> acc -> pstate -> (node list * acc) * pstate

val template_transform : config -> node -> pstate -> node option * pstate

val arrow_transform : node -> node

val is_call_or_apply : char list -> bool

val member_parts : node -> (node * node) option

val member_prop_is_prototype : node -> bool

val prototype_method : node -> (char list * sp) option

val is_undefined_or_null : node -> bool

val arg_lit_or_undef : node -> bool

val all_args_are_literal : node list -> bool

val invalid_args : char list -> node list -> bool

val call_parts : node -> (((node * node) * node list) * node) option

type proto_parts =
| PPNone
| PPSpreadThis of char list * sp
| PPThis of node * char list * sp * node

val prototype_parts : config -> node -> node -> char list -> proto_parts

val replace_callee_and_args :
  config -> node -> node option -> char list option -> acc -> pstate ->
  (node * acc) * pstate

val insert_this : node -> node -> node

val replace_with_member :
  config -> node -> char list -> sp -> node -> node option -> char list
  option -> pstate -> (node * char list) option * pstate

val replace_spread_with_member :
  config -> char list -> node -> node -> char list -> pstate ->
  (node * char list) option * pstate

val replace_without_callee :
  config -> node -> node -> pstate -> (node * char list) option * pstate

val replace_prototype :
  config -> node -> node -> char list -> pstate -> (node * char list)
  option * pstate

val receiver_kind_ok : node -> bool

val call_transform :
  config -> node -> pstate -> (node * char list) option * pstate

type ocstate = { oc_assigns : node list; oc_new_ident : node option;
                 oc_found : bool; oc_p : pstate }

val oc_get_ident : config -> node -> ocstate -> node option * ocstate

val oc_set_new_ident : node -> ocstate -> ocstate

val oc_set_found : ocstate -> ocstate

val oc_callee_member : node -> ((node * node) * bool) option

val oc_call_from_base :
  config -> node -> bool -> ocstate -> node option * ocstate

val oc_member_from_base :
  config -> node -> bool -> ocstate -> node option * ocstate

val optchain_parts : node -> (bool * node) option

val oc_is_target : config -> node -> bool

val map_st :
  (node -> 'a1 -> (node * 'a1) option) -> node list -> 'a1 -> (node
  list * 'a1) option

val oc_visit : config -> nat -> node -> ocstate -> (node * ocstate) option

val optchain_transform :
  config -> nat -> node -> pstate -> ((node * bool) * pstate) option

type ostate = { o_p : pstate; o_t : tstate }

val o_with_p : pstate -> ostate -> ostate

val o_update : config -> status -> char list option -> ostate -> ostate

val o_leave : bool -> ostate -> ostate

val unary_op : node -> char list option

val assign_op : node -> char list option

val tpl_instrumentable : node -> bool

val callee_is_expr : node -> bool

type opclass =
| OBlock
| OIdent
| OBin
| OAssign
| OTpl
| OCall
| OOptChain
| OUnary
| OArrow
| OLeaf
| OOther

val classify : node -> opclass

val default_visit_with :
  (node -> ostate -> (node * ostate) option) -> node -> ostate ->
  (node * ostate) option

val struct_level_with :
  config -> (node -> ostate -> (node * ostate) option) -> node -> ostate ->
  (node * ostate) option

val bin_step : config -> node -> ostate -> node * ostate

val assign_step : config -> node -> ostate -> node * ostate

val tpl_step : config -> node -> ostate -> node * ostate

val call_step : config -> node -> ostate -> node * ostate

val finish : bool -> (node * ostate) -> (node * ostate) option

val op_visit :
  config -> nat -> bool -> node -> ostate -> (node * ostate) option

val can_precede_directive : node -> bool

val insertion_index : node list -> nat

val insert_at : nat -> 'a1 list -> 'a1 list -> 'a1 list

val insert_let : char list list -> sp -> node list -> node list

val t_cancel : char list -> tstate -> tstate

val block_visit : config -> nat -> node -> tstate -> (node * tstate) option

val insert_prologue : config -> node list -> node list

val program_visit : config -> nat -> node -> (node * tstate) option

val default_fuel : node -> nat

type outcome =
| OutOk of node * tstate
| OutErr of char list
| OutFuel

val subst_format : char list -> char list list -> char list

val rewrite : config -> char list -> node -> outcome

val hook_callee_name : node -> char list option

val hook_call : node -> (char list * node list) option

val is_hook : node -> bool

val hook_count : node -> nat

val hook_names : node -> char list list

val assign_pair : node -> (char list * node) option

val lookup_assign : char list -> node list -> node option

val documented_add_tag : char list

val documented_add_assign_tag : char list

val documented_tpl_tag : char list

val tag_of_operation : node -> node list -> bool -> char list

val first_arg : node list -> node option

val hook_tags_aux :
  char list -> node list -> sp option -> node -> char list list

val hook_tags : char list -> node -> char list list

val hook_sites : node -> (char list * (n * n)) list

val is_ns_ident : node -> bool

val is_ns_member : node -> bool

val stop_kind : node -> bool

val meas : (node -> nat option) -> nat -> node -> nat

val meas_list : (node -> nat option) -> nat -> node list -> nat

val no_stop : node -> nat option

val ns_count : node -> nat

val name_weight : (char list -> bool) -> node -> nat

val stop_names : (char list -> bool) -> node -> nat option

val badname : (char list -> bool) -> node -> nat

val badname_list : (char list -> bool) -> node list -> nat

val ns_members : node -> node list

val any_node : (node -> bool) -> node -> bool

val static_path : node -> bool

val call_apply_nonstatic : char list list -> node -> bool

val k_call_apply_nonstatic : char list list -> node -> bool

val peel_paren_nodes : node -> node

val optional_call_through_chain : node -> bool

val k_optional_call_through_chain : node -> bool

val writes_ident : char list -> node -> bool

val bare_call_callee_assigned : node -> bool

val k_bare_call_callee_assigned : node -> bool

val known_classes : char list list -> node -> char list list

val is_directive : node -> bool

val directives_of : node list -> node list

val after_directives : node list -> node list

val list_eqb : node list -> node list -> bool

val is_injected_let : char list -> node -> bool

val strip_prefix : node list -> node list -> node list option

val strip_injected : char list -> node list -> node list -> node list

val first_span : node list -> sp option

val opt_span_eqb : sp option -> sp option -> bool

val stmts_dir_ok : char list -> node list -> node list -> node list -> bool

val blocks_of : node -> (sp * node list) list

val find_block : sp -> (sp * node list) list -> node list option

val program_body : node -> node list

val blocks_of_list : node list -> (sp * node list) list

val directives_ok : char list -> node list -> bool -> node -> node -> bool

val tag_eqb_nospan : tag -> tag -> bool

val node_eqb_nospan : node -> node -> bool

val assoc_str : char list -> (char list * 'a1) list -> 'a1 option

val is_temp_ident : char list -> node -> char list option

val subst : char list -> (char list * node) list -> node -> node

val clean_rhs : node -> node

val split_injected :
  char list -> node list -> ((char list * node) list * node) option

val build_env :
  char list -> (char list * node) list -> (char list * node) list ->
  (char list * node) list

val same_receiver : char list -> node -> node -> bool

val uncall : char list -> (char list * node) list -> node -> node

val guard_parts : char list -> node -> (char list * node) option

val mk_opt : node -> node

val is_super_callee : node -> bool

val unguard :
  char list -> (char list * node) list -> char list -> node -> node

val collapse_seq : char list -> node list -> node option

val unarrow : node -> node

val strip_let : char list -> node list -> node list

val post : char list -> node -> node

val erase_node : char list -> node -> node

val strip_prologue : node list -> node list -> node list

val erase : char list -> node list -> bool -> node -> node

val lower_post : bool -> node -> node

val lower : bool -> node -> node

val spine_has_optional : node -> bool

val strip_parens : node -> node

val erase_ok : char list -> node list -> bool -> bool -> node -> node -> bool

val first_diff_nospan : node -> node -> nat list option

val norm_eol : char list -> char list

val norm_post : node -> node

val norm_print : node -> node

val roundtrip_ok : node -> node -> bool

val effect_kind : kind -> bool

val temp_assign : char list -> node -> bool

val effect_spans : char list -> node -> ((kind * n) * n) list

val key_eqb : ((kind * n) * n) -> ((kind * n) * n) -> bool

val count_key : ((kind * n) * n) -> ((kind * n) * n) list -> nat

val dup_effects : char list -> node -> node -> (n * n) list

type site_cfg = { sc_plus : bool; sc_tpl : bool; sc_methods : char list list;
                  sc_lit_callers : char list list }

val documented_lit_callers : char list list

type site = { s_key : sp; s_what : char list; s_class : char list }

type wctx = { in_block : bool; excluded : bool; cls : char list }

val mem_str : char list -> char list list -> bool

val lit_sum : node -> bool

val tpl_all_nonlit : node list -> bool

val tpl_has_lit : node list -> bool

val undefined_or_null : node -> bool

val arg_lit_like : node -> bool

val site_here : site_cfg -> node -> ((sp * char list) * char list) list

val with_block : wctx -> wctx

val with_excluded : wctx -> wctx

val sites_walk : site_cfg -> wctx -> node -> site list

val required_sites : site_cfg -> node -> site list

val key_of_operation : node -> node list -> sp option

val hook_keys_aux : node list -> node -> sp list

val hook_keys : node -> sp list

val sp_eqb0 : sp -> sp -> bool

val missing_sites : site_cfg -> node -> node -> site list

val mem_str0 : char list -> char list list -> bool

val reserved_ident : char list -> node -> (char list * bool) option

val let_names : char list -> node list -> char list list

val has_dup : char list list -> bool

type hctx = { h_decl : char list list option; h_crossed : char list option;
              h_assigned : char list list; h_live : char list list }

type issue = char list * char list

val hyg : char list -> hctx -> node -> issue list

val unassigned_reads : char list -> char list list -> node -> issue list

val user_idents : char list -> node -> char list list

val block_let_names : char list -> node -> char list list

val clash_between : char list -> node list -> node -> issue list

val clashes : char list -> node -> issue list

val hygiene_issues : char list -> node -> issue list

type expected =
| Exact of node
| OmittedSum of node
| Hole
| Unspread of node

val is_plus : node -> bool

val expect_operand : node -> expected

val expected_of_operation : node -> expected list option

val simple_arg : char list -> node -> bool

val match_args : char list -> expected list -> node list -> char list list

val apply_spread_args : node -> bool

val apply_unexpanded_args : node -> bool

val apply_extra_args : node -> bool

val regex_operand : node list -> bool

val has_dup_str : char list list -> bool

val operand_temps : char list -> node list -> char list list

val is_array_copy : node -> bool

val spread_temps : char list -> node list -> char list list

val noncopy_assigned : char list -> node list -> char list list

val seq_spread_issue : char list -> node -> char list list

val shape_issues : char list -> node -> char list list

val inert : node -> bool

val static_path0 : node -> bool

val arg_exprs : node list -> node list

val plain_arg_exprs : node list -> node list

type op_view =
| OpOperands of node list
| OpCall of node * node * node list
| OpBare of node * node list
| OpUnknown

val view_op : node -> op_view

val temps_of : char list -> node list -> char list list

val dedup_str : char list list -> char list list -> char list list

val list_str_eqb : char list list -> char list list -> bool

val kept_before_effect :
  char list -> (char list * node) list -> node list -> bool

val temps_preorder : char list -> node -> char list list

val seq_order_issues :
  char list -> (char list * node) list -> node -> char list list

val order_issues : char list -> node -> char list list

val prop_ok : node -> bool

val member_like_ok : node -> bool

val target_ok : node -> bool

val wf_node : node -> bool

val wf_all : node -> bool

val has_kind : kind -> node -> bool

val has_optchain : node -> bool

type value =
| VUndef
| VStr of char list
| VObj of nat

type expr =
| Lit of value
| Var of char list
| Tmp of nat
| Add of expr * expr
| CallE of expr * expr
| Par of expr
| AddAsgV of char list * expr
| AddAsgM of expr * char list * expr
| AsgV of char list * expr
| AsgM of expr * char list * expr
| MCall0 of expr * char list
| CallT0 of expr * expr
| MCall1 of expr * char list * expr
| Get of expr * char list
| CallT1 of expr * expr * expr
| Hoist3 of nat * expr * nat * expr * nat * expr * expr
| Hoist2 of nat * expr * nat * expr * expr
| Hoist1 of nat * expr * expr
| Hook of expr * expr list
| Tpl1 of char list * expr * char list
| Tpl2 of char list * expr * char list * expr * char list
| OptMCall0 of expr * char list
| OptMCall1 of expr * char list * expr
| Guard of nat * expr * expr
| AddAsgC of expr * expr * expr
| GetC of expr * expr
| AsgC of expr * expr * expr

val is_triv : expr -> bool

val is_lit0 : expr -> bool

type act =
| Keep0
| Stay
| Hoist

val left_act : expr -> expr -> act

val right_act : expr -> expr -> act

val wrap : (nat * expr) list -> expr -> expr

val rw_add : expr -> expr -> nat -> expr * nat

val arg_act : expr -> act

val recv_ok : expr -> bool

val rw_mcall : expr -> char list -> expr -> nat -> expr * nat

val rw_mcall0 : expr -> char list -> nat -> expr * nat

val group_sum : expr -> expr

val rw_addasg_v : char list -> expr -> nat -> expr * nat

val rw_addasg_m : expr -> char list -> expr -> nat -> expr * nat

val rw_addasg_c : expr -> expr -> expr -> nat -> expr * nat

val rw_tpl1 : char list -> expr -> char list -> nat -> expr * nat

val rw_tpl2 :
  char list -> expr -> char list -> expr -> char list -> nat -> expr * nat

val rw_bare : char list -> expr -> nat -> expr * nat

val rw :
  (char list -> bool) -> (char list -> bool) -> (char list -> bool) -> bool
  -> expr -> nat -> expr * nat

val rw_root :
  (char list -> bool) -> (char list -> bool) -> (char list -> bool) -> bool
  -> expr -> expr

val temp_index_from : char list -> char list -> nat -> nat -> nat option

val temp_index : char list -> char list -> nat option

val plain_arg : node -> node option

val map_opt : ('a1 -> 'a2 option) -> 'a1 list -> 'a2 list option

val quasi_raw : node -> char list option

val abstract : char list -> char list -> nat -> node -> expr option

val value_eqb : value -> value -> bool

val expr_eqb : expr -> expr -> bool

val last_return : node -> node option

type tie_result =
| TieNotCore
| TieNoOutput
| TieAgree
| TieDiffer

val sem_tie :
  char list -> char list -> (char list -> bool) -> (char list -> bool) ->
  (char list -> bool) -> bool -> node -> node -> tie_result
