(* Driver for the extracted model (hand-written, trusted): see util.ml for the protocol. *)
open Model
open Util

(* ---- state of the current case ---- *)
type case = {
  mutable id : string;
  mutable prefix : string;
  mutable methods : csi_method list;
  mutable litcallers : char list list;
  mutable verb : verbosity;
  mutable literals : bool;
  mutable chain : bool;
  mutable comments : bool;
  mutable prestmts : node list;
  mutable file : string;
  mutable src : string;
  mutable ast_in : node option;
  mutable ast_out : node option;
  mutable ast_reparsed : node option;
}

(* source maps handed over for decoding / chaining / lookups (extracted SrcMap functions) *)
let maps : (string * string) list ref = ref []
let queries : (int * int) list ref = ref []

let z_of_int (i : int) : z = if i = 0 then Z0 else if i > 0 then Zpos (pos_of_int i) else Zneg (pos_of_int (-i))
let int_of_z = function Z0 -> 0 | Zpos p -> int_of_pos p | Zneg p -> - (int_of_pos p)

let decode_map (s : string) : raw_token list option = decode_mappings (explode s)

let tok_json (t : raw_token) : jv =
  match t.rt_src with
  | None -> JL [ JI (int_of_n t.rt_gl); JI (int_of_z t.rt_gc) ]
  | Some ((si, sl), sc) ->
      JL ([ JI (int_of_n t.rt_gl); JI (int_of_z t.rt_gc); JI (int_of_z si); JI (int_of_z sl); JI (int_of_z sc) ]
          @ (match t.rt_name with Some n -> [ JI (int_of_z n) ] | None -> []))

let key_of (t : raw_token) = (int_of_n t.rt_gl, int_of_z t.rt_gc)
let sort_tokens (l : raw_token list) = List.stable_sort (fun a b -> compare (key_of a) (key_of b)) l
let posn (l, c) = (n_of_int l, n_of_int c)

let run_maps (parts : string list) : (string * jv) list =
  let dec name = match List.assoc_opt name !maps with Some s -> decode_map s | None -> None in
  let decoded =
    if List.mem "decode" parts then
      List.map (fun (name, s) ->
        ("map_" ^ name, match decode_map s with Some ts -> JL (List.map tok_json ts) | None -> JS "undecodable")) !maps
    else [] in
  let chained =
    if List.mem "chain" parts then
      match dec "R", dec "O" with
      | Some r, Some o ->
          let m1 = List.filter_map (fun t -> match t.rt_src with
              | Some ((_, sl), sc) -> Some (posn (key_of t), posn (int_of_z sl, int_of_z sc)) | None -> None) r in
          (* sourceless segments of the original map are kept as lookup targets that resolve to nothing *)
          let m2 = List.map (fun t -> match t.rt_src with
              | Some _ -> (posn (key_of t), Some t) | None -> (posn (key_of t), None)) (sort_tokens o) in
          let c = chain_opt m1 m2 in
          [ ("chain", JL (List.map (fun ((gl, gc), t) ->
                 tok_json { t with rt_gl = gl; rt_gc = z_of_int (int_of_n gc) }) c)) ]
      | _, _ -> [ ("chain", JS "undecodable") ]
    else [] in
  let looked =
    if List.mem "lookup" parts then
      match dec "M" with
      | Some m ->
          let toks = List.map (fun t -> (posn (key_of t), t)) (sort_tokens m) in
          [ ("lookups", JL (List.map (fun q ->
                 match lookup toks (posn q), find_entry toks (posn q) with
                 | Some (_, t), Some (_, t') -> JL [ tok_json t; tok_json t' ]
                 | None, None -> JL []
                 | Some (_, t), None -> JL [ tok_json t; JS "none" ]
                 | None, Some (_, t') -> JL [ JS "none"; tok_json t' ]) (List.rev !queries))) ]
      | None -> [ ("lookups", JS "undecodable") ]
    else [] in
  decoded @ chained @ looked

(* raw (unresolved) configuration for the to_config model *)
let raw_opts : (string * string) list ref = ref []
let raw_methods : raw_method list ref = ref []
let raw_has_methods = ref false
let raw_valid = ref false

let fresh () = raw_opts := []; raw_methods := []; raw_has_methods := false; raw_valid := false; maps := []; queries := []; {
  id = ""; prefix = ""; methods = []; litcallers = []; verb = VInformation; literals = true;
  chain = false; comments = false; prestmts = []; file = ""; src = "";
  ast_in = None; ast_out = None; ast_reparsed = None }

let raw_config () : raw_config =
  let ob k = match List.assoc_opt k !raw_opts with Some "1" -> Some true | Some "0" -> Some false | _ -> None in
  let os k = match List.assoc_opt k !raw_opts with Some v -> Some (explode v) | None -> None in
  { r_chain = ob "chain"; r_comments = ob "comments"; r_prefix = os "prefix";
    r_methods_opt = (if !raw_has_methods then Some (List.rev !raw_methods) else None);
    r_verbosity = os "verbosity"; r_literals = ob "literals" }

(* the configuration the implementation resolved (METHOD / VERB / FLAGS lines) ... *)
let impl_config_of (c : case) : config = {
  c_prefix = explode c.prefix; c_methods = List.rev c.methods;
  c_lit_callers = List.rev c.litcallers; c_verbosity = c.verb; c_literals = c.literals;
  c_chain = c.chain; c_comments = c.comments; c_prefix_stmts = c.prestmts }

(* ... and the one the model and the specifications work with: resolved by coq/ToConfig.v from what the caller gave, whenever
   that is a well-typed configuration object (the prefix drawn at random and the parsed prologue stay the implementation's) *)
let config_of (c : case) : config =
  let ic = impl_config_of c in
  if not !raw_valid then ic
  else
    let raw = raw_config () in
    let cq = to_config (fun _ -> O) raw in
    { ic with c_methods = cq.c_methods; c_lit_callers = cq.c_lit_callers; c_verbosity = cq.c_verbosity;
              c_literals = cq.c_literals; c_chain = cq.c_chain; c_comments = cq.c_comments;
              c_prefix = (match raw.r_prefix with Some p -> p | None -> ic.c_prefix) }

let status_str = function Modified -> "modified" | NotModified -> "notmodified" | Cancelled -> "cancelled"

let trunc (s : string) : string = if String.length s > 600 then String.sub s 0 600 ^ "..." else s

let run_model (parts : string list) (c : case) : (string * jv) list =
  match c.ast_in with
  | None -> [ ("model", JS "no-input") ]
  | Some ast ->
      let cfg = config_of c in
      (match rewrite cfg (explode c.file) ast with
       | OutFuel -> [ ("model", JS "fuel") ]
       | OutErr msg -> [ ("model", JS "error"); ("model_error", JS (implode msg)) ]
       | OutOk (out, t) ->
           let base = [
             ("model", JS "ok");
             ("model_status", JS (status_str t.t_status));
             ("model_count", JI (int_of_n t.t_count));
             ("model_tags", JL (List.map (fun s -> JS (implode s)) t.t_tags)) ] in
           let proj =
             match c.ast_out with
             | None -> []
             | Some impl_out ->
                 let vp = var_prefix cfg in
                 let keys t = List.sort compare (List.map (fun (a, b) -> (int_of_n a, int_of_n b)) (hook_keys t)) in
                 let names t = List.sort compare (List.map implode (hook_names t)) in
                 let dirs t =
                   let one stmts = (List.length (directives_of stmts),
                                    (match after_directives stmts with
                                     | s :: _ -> is_injected_let vp s
                                     | [] -> false)) in
                   (one (program_body t),
                    List.map (fun ((lo, hi), stmts) -> (int_of_n lo, int_of_n hi, one stmts)) (blocks_of t)) in
                 [ ("proj_sites_equal", JB (keys out = keys impl_out));
                   ("proj_names_equal", JB (names out = names impl_out));
                   ("proj_directives_equal", JB (dirs out = dirs impl_out)) ] in
           let cmp =
             match c.ast_out with
             | None -> [ ("model_ast", JS (sexp_string out)) ]
             | Some impl_out ->
                 (match first_diff out impl_out [] with
                  | None -> [ ("ast_equal", JB true); ("ast_equal_nospan", JB true) ]
                  | Some (path, a, b) ->
                      [ ("ast_equal", JB false);
                        ("ast_equal_nospan", JB (first_diff_nospan out impl_out = None));
                        ("diff_path", JL (List.map (fun i -> JI i) path));
                        ("diff_model", JS (trunc (sexp_string a)));
                        ("diff_impl", JS (trunc (sexp_string b))) ]) in
           let mv =
             List.map (fun (k, v) -> ("model:" ^ k, v))
               (Validate.run c.prefix cfg
                  (List.filter (fun p -> p <> "modified") parts
                   @ (if t.t_status = Modified then [ "modified" ] else []))
                  c.src c.ast_in (Some out) None) in
           base @ cmp @ proj @ mv)

let () =
  let ic = if Array.length Sys.argv > 1 then open_in Sys.argv.(1) else stdin in
  let oc = if Array.length Sys.argv > 2 then open_out Sys.argv.(2) else stdout in
  let c = ref (fresh ()) in
  (try
     while true do
       let line = input_line ic in
       let fields = String.split_on_char '\t' line in
       match fields with
       | [ "BEGIN"; id ] -> c := fresh (); !c.id <- id
       | [ "PREFIX"; p ] -> !c.prefix <- unescape p
       | [ "METHOD"; src; dst; op; awc ] ->
           !c.methods <- { m_src = explode (unescape src); m_dst = explode (unescape dst);
                           m_operator = (op = "1"); m_awc = (awc = "1") } :: !c.methods
       | [ "LITCALLER"; s ] -> !c.litcallers <- explode (unescape s) :: !c.litcallers
       | [ "VERB"; v ] ->
           !c.verb <- (match v with "OFF" -> VOff | "MANDATORY" -> VMandatory
                                  | "DEBUG" -> VDebug | _ -> VInformation)
       | [ "FLAGS"; l; ch; cm ] ->
           !c.literals <- (l = "1"); !c.chain <- (ch = "1"); !c.comments <- (cm = "1")
       | [ "PRESTMTS"; s ] ->
           !c.prestmts <- (match parse_sexp s with Node (Lst, l) -> l | _ -> [])
       | [ "FILE"; f ] -> !c.file <- unescape f
       | [ "SRC"; s ] -> !c.src <- unescape s
       | [ "IN"; s ] -> !c.ast_in <- Some (parse_sexp s)
       | [ "OUT"; s ] -> !c.ast_out <- Some (parse_sexp s)
       | [ "REPARSED"; s ] -> !c.ast_reparsed <- Some (parse_sexp s)
       | [ "MAP"; name; m ] -> maps := (name, unescape m) :: !maps
       | [ "QUERY"; l; c ] -> queries := (int_of_string l, int_of_string c) :: !queries
       | [ "RAWOPT"; k; v ] -> raw_opts := (k, unescape v) :: !raw_opts
       | [ "RAWMETHODS" ] -> raw_has_methods := true
       | [ "RAWVALID" ] -> raw_valid := true
       | [ "RAWMETHOD"; src; dst; op; awc ] ->
           let ob = function "1" -> Some true | "0" -> Some false | _ -> None in
           raw_methods := { rm_src = explode (unescape src);
                            rm_dst = (if dst = "-" then None else Some (explode (unescape (String.sub dst 1 (String.length dst - 1)))));
                            rm_operator = ob op; rm_awc = ob awc } :: !raw_methods
       | [ "RUN"; what ] ->
           let parts = String.split_on_char ',' what in
           let res = ref [ ("id", JS !c.id) ] in
           (try
              if List.mem "model" parts then res := !res @ run_model parts !c;
              if !maps <> [] then res := !res @ run_maps parts;
              if List.mem "toconfig" parts then begin
                let raw = raw_config () in
                let cfg = to_config (fun i -> O) raw in
                let vs = function VOff -> "OFF" | VMandatory -> "MANDATORY" | VInformation -> "INFORMATION" | VDebug -> "DEBUG" in
                res := !res @ [
                  ("tc_chain", JB cfg.c_chain); ("tc_comments", JB cfg.c_comments); ("tc_literals", JB cfg.c_literals);
                  ("tc_verbosity", JS (vs cfg.c_verbosity)); ("tc_prefix", JS (implode cfg.c_prefix));
                  ("tc_lit_callers", JL (List.map (fun s -> JS (implode s)) cfg.c_lit_callers));
                  ("tc_methods", JL (List.map (fun m -> JL [ JS (implode m.m_src); JS (implode m.m_dst); JB m.m_operator; JB m.m_awc ]) cfg.c_methods));
                  ("tc_prologue_text", JS (implode (prologue_text cfg.c_methods))) ]
              end;
              res := !res @ Validate.run !c.prefix (config_of !c) parts !c.src
                              !c.ast_in !c.ast_out !c.ast_reparsed
            with
            | Stack_overflow -> res := !res @ [ ("driver_error", JS "stack overflow") ]
            | e -> res := !res @ [ ("driver_error", JS (Printexc.to_string e)) ]);
           let b = Buffer.create 1024 in
           json b (JO !res);
           output_string oc (Buffer.contents b);
           output_char oc '\n'
       | [ "END" ] -> ()
       | _ -> ()
     done
   with End_of_file -> ());
  close_out oc
